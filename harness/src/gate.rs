//! The gate turns the real flush worker into a thread whose scheduler is the
//! harness: at every hook point, FS call and callback the worker parks until
//! the driver releases it for exactly one step.

use std::collections::HashMap;
use std::sync::Condvar;
use std::sync::Mutex;
use std::sync::OnceLock;
use std::time::Duration;
use std::time::Instant;

use serde_json::json;

use crate::shim;

#[derive(Clone, Copy, PartialEq, Eq, Debug)]
pub enum Mode {
    /// workers run freely, points are only logged
    Free,
    /// workers park at every stop
    Gated,
    /// workers sleep a pseudo-random number of microseconds at every stop
    Jitter,
}

#[derive(Default, Debug, Clone)]
pub struct WState {
    pub parked: Option<(String, u64)>,
    pub permits: u64,
    pub stops: u64,
    pub free: bool,
    pub exited: bool,
    /// requests taken from the channel so far
    pub received: u64,
    pub last_done: u64,
}

pub struct GState {
    pub mode: Mode,
    pub workers: HashMap<String, WState>,
    pub order: Vec<String>,
    /// requests sent on the caller thread (all instances)
    pub sent_total: u64,
    pub jitter_seed: u64,
    pub log_points: bool,
}

pub struct Gate {
    pub st: Mutex<GState>,
    pub cv: Condvar,
}

static GATE: OnceLock<Gate> = OnceLock::new();

pub fn gate() -> &'static Gate {
    GATE.get_or_init(|| Gate {
        st: Mutex::new(GState {
            mode: Mode::Free,
            workers: HashMap::new(),
            order: vec![],
            sent_total: 0,
            jitter_seed: 1,
            log_points: true,
        }),
        cv: Condvar::new(),
    })
}

pub fn set_mode(m: Mode, seed: u64) {
    let g = gate();
    let mut st = g.st.lock().unwrap();
    st.mode = m;
    st.jitter_seed = seed | 1;
    g.cv.notify_all();
}

pub fn mode() -> Mode {
    gate().st.lock().unwrap().mode
}

/// Observer installed into raft_log::verif.
pub fn observer(name: &'static str, arg: u64) {
    stop(name, arg, true);
}

/// Called by the shim before an FS call of a tracked file.
pub fn fs_stop(call: &'static str, arg: u64) {
    stop(call, arg, false);
}

pub fn stop(name: &'static str, arg: u64, is_point: bool) {
    let wid = shim::label();
    if wid == "c" {
        if name == "send" {
            let g = gate();
            let mut st = g.st.lock().unwrap();
            st.sent_total += 1;
        }
        return;
    }
    if !wid.starts_with('w') {
        return;
    }
    let g = gate();
    let mut st = g.st.lock().unwrap();
    if !st.workers.contains_key(&wid) {
        st.workers.insert(wid.clone(), WState::default());
        st.order.push(wid.clone());
        g.cv.notify_all();
    }
    let log_points = st.log_points;
    {
        let w = st.workers.get_mut(&wid).unwrap();
        match name {
            "batch" | "recv_nf" => w.received += 1,
            "batch_end" => w.received += arg,
            "done" => w.last_done = arg,
            _ => {}
        }
    }
    let mode = st.mode;
    let free = st.workers[&wid].free;
    if is_point && log_points && !free {
        drop(st);
        shim::log_event(json!({"e": "pt", "t": wid, "p": name, "a": crate::util::enc_u64(arg)}));
        st = g.st.lock().unwrap();
    }
    if name == "exit" {
        let w = st.workers.get_mut(&wid).unwrap();
        w.exited = true;
        w.parked = Some((name.to_string(), arg));
        w.stops += 1;
        g.cv.notify_all();
        return;
    }
    match mode {
        Mode::Free => {}
        Mode::Jitter => {
            if !free {
                st.jitter_seed = st.jitter_seed.wrapping_mul(6364136223846793005).wrapping_add(1442695040888963407);
                let r = (st.jitter_seed >> 33) % 100;
                drop(st);
                if r < 30 {
                    std::thread::yield_now();
                } else if r < 45 {
                    std::thread::sleep(Duration::from_micros(20 + r * 3));
                }
            }
        }
        Mode::Gated => {
            if free {
                return;
            }
            {
                let w = st.workers.get_mut(&wid).unwrap();
                w.parked = Some((name.to_string(), arg));
                w.stops += 1;
            }
            g.cv.notify_all();
            loop {
                let w = st.workers.get_mut(&wid).unwrap();
                if w.free {
                    break;
                }
                if w.permits > 0 {
                    w.permits -= 1;
                    break;
                }
                st = g.cv.wait(st).unwrap();
            }
            let w = st.workers.get_mut(&wid).unwrap();
            w.parked = None;
        }
    }
}

#[derive(Debug)]
pub enum StepErr {
    Timeout,
    Exited,
    NoSuchWorker,
}

/// Release worker `wid` for one step and wait until it parks again.
pub fn step(wid: &str) -> Result<(String, u64), StepErr> {
    let g = gate();
    let mut st = g.st.lock().unwrap();
    let Some(w) = st.workers.get_mut(wid) else {
        return Err(StepErr::NoSuchWorker);
    };
    if w.exited {
        return Err(StepErr::Exited);
    }
    let s0 = w.stops;
    w.permits += 1;
    g.cv.notify_all();
    let deadline = Instant::now() + Duration::from_secs(60);
    loop {
        let w = &st.workers[wid];
        if w.stops > s0 && (w.parked.is_some() || w.exited) {
            return Ok(w.parked.clone().unwrap_or(("exit".into(), 0)));
        }
        let now = Instant::now();
        if now >= deadline {
            return Err(StepErr::Timeout);
        }
        let (g2, _t) = g.cv.wait_timeout(st, deadline - now).unwrap();
        st = g2;
    }
}

/// Where the worker is parked right now (None = running or unknown).
pub fn parked(wid: &str) -> Option<(String, u64)> {
    let g = gate();
    let st = g.st.lock().unwrap();
    st.workers.get(wid).and_then(|w| w.parked.clone())
}

pub fn wstate(wid: &str) -> Option<WState> {
    gate().st.lock().unwrap().workers.get(wid).cloned()
}

pub fn sent_total() -> u64 {
    gate().st.lock().unwrap().sent_total
}

/// Wait until worker `wid` is parked (gated mode).
pub fn wait_parked(wid: &str) -> bool {
    let g = gate();
    let mut st = g.st.lock().unwrap();
    let deadline = Instant::now() + Duration::from_secs(60);
    loop {
        if let Some(w) = st.workers.get(wid) {
            if w.parked.is_some() || w.exited {
                return true;
            }
        }
        let now = Instant::now();
        if now >= deadline {
            return false;
        }
        let (g2, _t) = g.cv.wait_timeout(st, deadline - now).unwrap();
        st = g2;
    }
}

/// Let the worker run without further gating (used when an instance is abandoned).
pub fn set_free(wid: &str) {
    let g = gate();
    let mut st = g.st.lock().unwrap();
    if let Some(w) = st.workers.get_mut(wid) {
        w.free = true;
    }
    g.cv.notify_all();
}

/// Number of workers seen so far.
pub fn worker_count() -> usize {
    gate().st.lock().unwrap().order.len()
}

/// Wait for the (n+1)-th worker to register; returns its id.
pub fn wait_new_worker(n_before: usize) -> Option<String> {
    let g = gate();
    let mut st = g.st.lock().unwrap();
    let deadline = Instant::now() + Duration::from_secs(60);
    loop {
        if st.order.len() > n_before {
            return Some(st.order[n_before].clone());
        }
        let now = Instant::now();
        if now >= deadline {
            return None;
        }
        let (g2, _t) = g.cv.wait_timeout(st, deadline - now).unwrap();
        st = g2;
    }
}
