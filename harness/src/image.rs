//! Post-crash images: rebuilt from the observed FS call log, never from the
//! library's own bookkeeping.

use std::collections::BTreeMap;

use serde_json::Value;
use serde_json::json;

use crate::session::Session;
use crate::shim;
use crate::shim::FsRec;

#[derive(Clone, Debug, Default)]
pub struct FileImg {
    pub content: Vec<u8>,
    /// length of the prefix known durable (content at the last successful sync)
    pub synced: usize,
    pub linked: bool,
}

/// Replay the FS log of directory `dir` up to and including sequence number `upto`.
pub fn rebuild(fslog: &[FsRec], dir: &str, upto: u64) -> BTreeMap<String, FileImg> {
    let mut m: BTreeMap<String, FileImg> = BTreeMap::new();
    for r in fslog.iter() {
        if r.seq > upto {
            break;
        }
        if r.dir != dir {
            continue;
        }
        apply(&mut m, r);
    }
    m
}

pub fn apply(m: &mut BTreeMap<String, FileImg>, r: &FsRec) {
    match r.call {
        "creat" | "opent" => {
            if r.res >= 0 {
                let f = m.entry(r.file.clone()).or_default();
                f.linked = true;
                if r.call == "creat" || (r.flags & libc::O_TRUNC) != 0 {
                    f.content.clear();
                    f.synced = 0;
                }
            }
        }
        "write" => {
            // a failed write may still have put a prefix of its buffer into the file
            let f = m.entry(r.file.clone()).or_default();
            let off = r.off as usize;
            let end = off + r.data.len();
            if f.content.len() < end {
                f.content.resize(end, 0);
            }
            f.content[off..end].copy_from_slice(&r.data);
        }
        "fdatasync" | "fsync" => {
            if r.res >= 0 {
                let f = m.entry(r.file.clone()).or_default();
                f.synced = f.content.len();
            }
        }
        "ftruncate" => {
            if r.res >= 0 {
                let f = m.entry(r.file.clone()).or_default();
                f.content.resize(r.off as usize, 0);
                if f.synced > f.content.len() {
                    f.synced = f.content.len();
                }
            }
        }
        "unlink" => {
            if r.res >= 0 {
                if let Some(f) = m.get_mut(&r.file) {
                    f.linked = false;
                }
            }
        }
        _ => {}
    }
}

pub fn materialize(dir: &str, img: &BTreeMap<String, Vec<u8>>) {
    shim::unobserved(|| {
        let _ = std::fs::remove_dir_all(dir);
        std::fs::create_dir_all(dir).unwrap();
        for (name, content) in img {
            std::fs::write(format!("{}/{}", dir, name), content).unwrap();
        }
    })
}

pub fn dir_digest(dir: &str) -> Vec<(String, Vec<u8>)> {
    shim::unobserved(|| dir_digest_inner(dir))
}

fn dir_digest_inner(dir: &str) -> Vec<(String, Vec<u8>)> {
    let mut v = vec![];
    if let Ok(rd) = std::fs::read_dir(dir) {
        for e in rd.flatten() {
            let name = e.file_name().to_string_lossy().to_string();
            if name == "LOCK" {
                continue;
            }
            let c = std::fs::read(e.path()).unwrap_or_default();
            v.push((name, c));
        }
    }
    v.sort();
    v
}

/// Record boundaries (offsets local to the file) of the complete records in `b`,
/// by the record layout: 4-byte type, body by type, 8-byte checksum.
/// This is layout knowledge used to *choose* probe positions, never to judge.
pub fn record_bounds(b: &[u8]) -> Vec<usize> {
    let mut out = vec![0usize];
    let mut p = 0usize;
    let rd_u32 = |b: &[u8], p: usize| -> Option<usize> {
        if p + 4 > b.len() { None } else { Some(u32::from_be_bytes([b[p], b[p + 1], b[p + 2], b[p + 3]]) as usize) }
    };
    loop {
        let Some(t) = rd_u32(b, p) else { break };
        let mut q = p + 4;
        let ok = match t {
            0 | 2 | 4 => {
                q += 16;
                true
            }
            1 => {
                q += 16;
                match rd_u32(b, q) {
                    Some(n) => {
                        q += 4 + n;
                        true
                    }
                    None => false,
                }
            }
            3 => {
                if q < b.len() {
                    q += 1 + if b[q] != 0 { 16 } else { 0 };
                    true
                } else {
                    false
                }
            }
            5 => {
                q += 1; // version
                let mut good = true;
                for _ in 0..4 {
                    if q < b.len() {
                        q += 1 + if b[q] != 0 { 16 } else { 0 };
                    } else {
                        good = false;
                        break;
                    }
                }
                if good {
                    if q < b.len() {
                        if b[q] != 0 {
                            q += 1;
                            match rd_u32(b, q) {
                                Some(n) => q += 4 + n,
                                None => good = false,
                            }
                        } else {
                            q += 1;
                        }
                    } else {
                        good = false;
                    }
                }
                good
            }
            _ => false,
        };
        if !ok {
            break;
        }
        q += 8;
        if q > b.len() {
            break;
        }
        out.push(q);
        p = q;
    }
    out
}

/// The `crash_in_open` step: the directory is a post-crash image; recovery starts, performs only its first
/// k file-modifying calls, and the machine dies again.  The real recovery is run to the end (quietly), the
/// directory after its k-th modifying call is rebuilt from the FS log, and the run continues on that image.
/// keep=false: power loss, unsynced bytes (the new head) are lost; keep=true: everything written survives.
pub fn crash_in_open_step(s: &mut Session, step: &Value) {
    use std::sync::Arc;
    let cfg = crate::session::Cfg::from_json(&step["cfg"]);
    let k = step["k"].as_u64().unwrap_or(1) as usize;
    let keep = step["keep"].as_bool().unwrap_or(false);
    let dirkey = dir_key(&s.root, &s.dir);
    // base: what is in the directory now (a materialised image: all of it is durable)
    let mut files: BTreeMap<String, FileImg> = BTreeMap::new();
    for (name, content) in dir_digest(&s.dir) {
        let n = content.len();
        files.insert(name, FileImg { content, synced: n, linked: true });
    }
    let seq0 = {
        let mut sh = shim::shim();
        sh.quiet = true;
        sh.seq
    };
    let n_before = crate::gate::worker_count();
    let config = Arc::new(cfg.config(&s.dir));
    let r = std::panic::catch_unwind(std::panic::AssertUnwindSafe(|| raft_log::RaftLog::<crate::types::VT>::open(config)));
    if let Ok(Ok(rl)) = r {
        if let Some(w) = crate::gate::wait_new_worker(n_before) {
            crate::gate::set_free(&w);
            shim::shim().ignore_tids.insert(w);
        }
        drop(rl);
    }
    let recs: Vec<FsRec> = {
        let mut sh = shim::shim();
        sh.quiet = false;
        sh.fslog.iter().filter(|r| r.seq > seq0 && r.dir == dirkey && r.tid == "c").cloned().collect()
    };
    shim::log_event(json!({"e": "b", "op": "open", "args": cfg.to_json()}));
    let mut nmod = 0;
    for r in recs.iter() {
        if nmod >= k {
            break;
        }
        apply(&mut files, r);
        shim::log_event(json!({"e": "fs", "t": "c", "call": r.call, "ck": shim::chunk_of(&r.file), "file": r.file,
                               "off": r.off, "len": r.len, "res": r.res, "fl": r.flags}));
        if matches!(r.call, "ftruncate" | "unlink" | "creat" | "write") && r.file != "LOCK" && r.res >= 0 {
            nmod += 1;
        }
    }
    let mut img: BTreeMap<String, Vec<u8>> = BTreeMap::new();
    let mut desc = vec![];
    for (name, f) in files.iter() {
        if !f.linked || name == "LOCK" {
            continue;
        }
        let n = if keep { f.content.len() } else { f.synced.min(f.content.len()) };
        desc.push(json!([shim::chunk_of(name), n, 0, "none", f.synced, f.content.len()]));
        img.insert(name.clone(), f.content[..n].to_vec());
    }
    s.generation += 1;
    s.dir = format!("{}/{}.{}", s.root, s.run, s.generation);
    materialize(&s.dir, &img);
    shim::log_event(json!({"e": "crash", "kind": "power", "img": desc, "in_recovery": nmod}));
}

/// The `crash` step: abandon the instance and continue on an image of the directory.
///
/// step.kind = "process": every completed call is kept (the directory as it is now).
/// step.img  = [[file_ck, keep_records, tail], ...]: per chunk file, keep that many complete
///             records and then tail "none" | "part" (half of the next record) | "zero"
///             (the next record's length in zeros); files not listed are kept as written.
pub fn crash_step(s: &mut Session, step: &Value) {
    let upto = u64::MAX;
    let fslog = shim::shim().fslog.clone();
    let dirkey = dir_key(&s.root, &s.dir);
    let files = rebuild(&fslog, &dirkey, upto);
    let mut img: BTreeMap<String, Vec<u8>> = BTreeMap::new();
    let mut desc = vec![];
    for (name, f) in files.iter() {
        if !f.linked || name == "LOCK" {
            continue;
        }
        let ck = shim::chunk_of(name);
        let mut keep = f.content.len();
        let mut tail = "none".to_string();
        let mut zeros = 0usize;
        if let Some(arr) = step["img"].as_array() {
            for e in arr {
                if e[0].as_i64() == Some(ck) {
                    let bounds = record_bounds(&f.content);
                    let nrec = e[1].as_u64().unwrap_or(0) as usize;
                    let nrec = nrec.min(bounds.len() - 1);
                    keep = bounds[nrec];
                    tail = e[2].as_str().unwrap_or("none").to_string();
                    let next_len = if nrec + 1 < bounds.len() { bounds[nrec + 1] - bounds[nrec] } else { 0 };
                    if tail == "part" && next_len > 1 {
                        keep += next_len / 2;
                    } else if tail == "zero" && next_len > 0 {
                        zeros = next_len;
                    } else {
                        tail = "none".to_string();
                    }
                }
            }
        }
        let mut c = f.content[..keep].to_vec();
        c.extend(std::iter::repeat_n(0u8, zeros));
        desc.push(json!([ck, keep, zeros, tail, f.synced, f.content.len()]));
        img.insert(name.clone(), c);
    }
    s.abandon();
    s.generation += 1;
    s.dir = format!("{}/{}.{}", s.root, s.run, s.generation);
    materialize(&s.dir, &img);
    shim::log_event(json!({"e": "crash", "kind": step["kind"].as_str().unwrap_or("power"), "img": desc}));
}

pub fn dir_key(root: &str, dir: &str) -> String {
    dir[root.len()..].trim_start_matches('/').to_string()
}
