//! rlh — the raft-log conformance harness.
//!
//!   rlh run <scripts.ndjson> <trace-out.ndjson> [--gated|--jitter] [--seed N]
//!
//! Each input line is one run: {"id": n, "mode": "free|gated|jitter", "steps": [...]}.
//! The output holds, per run, a `reset` event followed by everything observed.

pub mod gate;
pub mod image;
pub mod probe;
pub mod session;
pub mod shim;
pub mod types;
pub mod util;

use std::io::BufRead;
use std::io::Write;

use serde_json::Value;
use serde_json::json;

fn run_scripts(inp: &str, out: &str) {
    let root = format!("/dev/shm/rlh.{}", std::process::id());
    let _ = std::fs::remove_dir_all(&root);
    std::fs::create_dir_all(&root).unwrap();
    shim::activate(&root);
    raft_log::verif::set_observer(Box::new(gate::observer));
    std::panic::set_hook(Box::new(|_| {}));

    let f = std::fs::File::open(inp).expect("open scripts");
    let mut w = std::io::BufWriter::new(std::fs::File::create(out).expect("create out"));
    for line in std::io::BufReader::new(f).lines() {
        let line = line.unwrap();
        if line.trim().is_empty() {
            continue;
        }
        let v: Value = serde_json::from_str(&line).expect("script json");
        let id = v["id"].as_u64().unwrap_or(0);
        let mode = match v["mode"].as_str().unwrap_or("free") {
            "gated" => gate::Mode::Gated,
            "jitter" => gate::Mode::Jitter,
            _ => gate::Mode::Free,
        };
        gate::set_mode(mode, v["seed"].as_u64().unwrap_or(id));
        shim::install_faults(vec![]);
        {
            let mut s = shim::shim();
            s.seq = 0;
            s.events.clear();
            s.fslog.clear();
        }
        shim::log_event(json!({"e": "reset", "run": id, "mode": v["mode"].as_str().unwrap_or("free"), "tag": v["tag"].as_str().unwrap_or("")}));
        let mut sess = session::Session::new(&root, id);
        for st in v["steps"].as_array().cloned().unwrap_or_default() {
            sess.exec(&st);
        }
        sess.finish();
        gate::set_mode(gate::Mode::Free, 1);
        let (evs, fs) = shim::take_logs();
        // post-hoc probes on the recorded FS log, merged into the trace after the position they probe
        let mut probes: Vec<probe::ProbeOut> = vec![];
        if v["probes"].is_object() {
            shim::shim().quiet = true;
            let dirkey = format!("{}.0", id);
            let cfg = sess.first_cfg.clone().unwrap_or_default();
            if v["probes"]["crash"].is_object() {
                probes.extend(probe::crash_probes(&fs, &dirkey, &cfg, &v["probes"]["crash"], v["seed"].as_u64().unwrap_or(id)));
            }
            let last_seq = evs.last().and_then(|e| e["seq"].as_u64()).unwrap_or(0);
            if v["probes"]["tail"].is_object() {
                probes.extend(probe::tail_probes(&fs, &dirkey, &cfg, &v["probes"]["tail"], v["seed"].as_u64().unwrap_or(id), last_seq));
            }
            if v["probes"]["damage"].is_object() {
                probes.extend(probe::damage_probes(&fs, &dirkey, &cfg, &v["probes"]["damage"], v["seed"].as_u64().unwrap_or(id), last_seq));
            }
            if v["probes"]["codec"].is_object() {
                probes.extend(probe::codec_probes(&fs, &dirkey, &cfg, &v["probes"]["codec"], v["seed"].as_u64().unwrap_or(id), last_seq));
            }
            // let the probes' workers finish before the next run starts
            std::thread::sleep(std::time::Duration::from_millis(2));
            let mut s = shim::shim();
            s.quiet = false;
            s.events.clear();
            s.fslog.clear();
        }
        let mut pi = 0usize;
        probes.sort_by_key(|p| p.pos);
        for e in evs {
            let seq = e["seq"].as_u64().unwrap_or(0);
            serde_json::to_writer(&mut w, &e).unwrap();
            w.write_all(b"\n").unwrap();
            while pi < probes.len() && probes[pi].pos <= seq {
                let mut pe = probes[pi].ev.clone();
                pe["seq"] = json!(seq);
                serde_json::to_writer(&mut w, &pe).unwrap();
                w.write_all(b"\n").unwrap();
                pi += 1;
            }
        }
        for g in 0..=sess.generation {
            let _ = std::fs::remove_dir_all(format!("{}/{}.{}", root, id, g));
        }
    }
    w.flush().unwrap();
    let _ = std::fs::remove_dir_all(&root);
}

fn main() {
    let args: Vec<String> = std::env::args().collect();
    if args.len() >= 4 && args[1] == "run" {
        let h = std::thread::Builder::new()
            .name("driver".into())
            .stack_size(64 << 20)
            .spawn({
                let a = args.clone();
                move || run_scripts(&a[2], &a[3])
            })
            .unwrap();
        h.join().unwrap();
        // abandoned workers may still be parked; leave without waiting for them
        std::process::exit(0);
    }
    if args.len() >= 4 && args[1] == "lockchild" {
        // a contender in its own process: try to take the directory, report, hold until told to drop
        std::panic::set_hook(Box::new(|_| {}));
        let cfg = session::Cfg::default().config(&args[2]);
        let config = std::sync::Arc::new(cfg);
        let held: Result<Box<dyn std::any::Any>, String> = if args[3] == "dump" {
            match std::panic::catch_unwind(|| raft_log::Dump::<types::VT>::new(config)) {
                Ok(Ok(d)) => Ok(Box::new(d)),
                Ok(Err(e)) => Err(util::err_class(&e)),
                Err(_) => Err("panic:child".into()),
            }
        } else {
            match std::panic::catch_unwind(|| raft_log::RaftLog::<types::VT>::open(config)) {
                Ok(Ok(d)) => Ok(Box::new(d)),
                Ok(Err(e)) => Err(util::err_class(&e)),
                Err(_) => Err("panic:child".into()),
            }
        };
        match &held {
            Ok(_) => println!("ok"),
            Err(e) => println!("{}", e),
        }
        let _ = std::io::stdout().flush();
        if held.is_ok() {
            let mut line = String::new();
            let _ = std::io::stdin().read_line(&mut line);
        }
        drop(held);
        std::process::exit(0);
    }
    eprintln!("usage: rlh run <scripts.ndjson> <trace.ndjson>");
    std::process::exit(2);
}
