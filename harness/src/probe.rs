//! Post-hoc probes on the recorded FS log of a finished run.
//!
//! crash probes: for FS-log positions p and images the crash model allows at p, the image is
//! materialised in a scratch directory outside the observed root, opened with the real
//! `RaftLog::open`, observed, continued (append, flush, reopen) and reported as a `probe`
//! event to be merged into the trace right after position p.  The monitor checks the image
//! against ITS OWN extents and judges the outcome; nothing is judged here.

use std::collections::BTreeMap;
use std::panic::AssertUnwindSafe;
use std::panic::catch_unwind;
use std::sync::Arc;
use std::time::Duration;

use raft_log::RaftLog;
use raft_log::api::raft_log_writer::RaftLogWriter;
use serde_json::Value;
use serde_json::json;

use crate::gate;
use crate::image;
use crate::image::FileImg;
use crate::session::Cfg;
use crate::session::observe;
use crate::session::panic_msg;
use crate::shim;
use crate::shim::FsRec;
use crate::types::Cb;
use crate::types::VT;
use crate::types::wait_cb;
use crate::util::*;

pub struct Rng(pub u64);
impl Rng {
    pub fn next(&mut self) -> u64 {
        self.0 = self.0.wrapping_mul(6364136223846793005).wrapping_add(1442695040888963407);
        self.0 >> 33
    }
    pub fn below(&mut self, n: u64) -> u64 {
        if n == 0 { 0 } else { self.next() % n }
    }
}

#[derive(Clone, Debug)]
pub struct Cut {
    pub keep: usize,
    pub zeros: usize,
    pub tail: &'static str,
}

/// The cut choices of one file under power loss: any record boundary >= synced, a torn record after it,
/// a zero-filled record after it; `bytes`: additionally every byte offset of the unsynced region.
pub fn cuts_of(f: &FileImg, bytes: bool) -> Vec<Cut> {
    let len = f.content.len();
    let mut out = vec![Cut { keep: len, zeros: 0, tail: "none" }];
    if f.synced >= len {
        return out;
    }
    let bounds = image::record_bounds(&f.content);
    let mut pts: Vec<usize> = bounds.iter().copied().filter(|b| *b >= f.synced && *b < len).collect();
    if !pts.contains(&f.synced) {
        pts.insert(0, f.synced);
    }
    for (i, b) in pts.iter().enumerate() {
        let next = bounds.iter().copied().find(|x| *x > *b).unwrap_or(len);
        let is_bound = bounds.contains(b);
        out.push(Cut { keep: *b, zeros: 0, tail: if is_bound { "none" } else { "part" } });
        if next > *b + 1 {
            out.push(Cut { keep: *b + (next - *b) / 2, zeros: 0, tail: "part" });
            if is_bound {
                out.push(Cut { keep: *b, zeros: next - *b, tail: "zero" });
            }
        }
        let _ = i;
    }
    if bytes {
        for k in f.synced..len {
            if !bounds.contains(&k) {
                out.push(Cut { keep: k, zeros: 0, tail: "part" });
            }
        }
    }
    out
}

pub struct ProbeOut {
    pub pos: u64,
    pub ev: Value,
}

fn scratch_root() -> String {
    format!("/dev/shm/rlp.{}", std::process::id())
}

/// Open an image, observe, continue, reopen.  Returns the JSON fields of the probe outcome.
pub fn open_and_continue(dir: &str, cfg: &Cfg, do_cont: bool) -> Value {
    let config = Arc::new(cfg.config(dir));
    let n_before = gate::worker_count();
    let r = catch_unwind(AssertUnwindSafe(|| RaftLog::<VT>::open(config.clone())));
    let mut rl = match r {
        Ok(Ok(rl)) => rl,
        Ok(Err(e)) => {
            return json!({"res": err_class(&e), "obs": {}, "files_after": crate::session::dir_listing(dir)});
        }
        Err(p) => {
            return json!({"res": format!("panic:{}", panic_msg(p)), "obs": {}, "files_after": crate::session::dir_listing(dir)});
        }
    };
    if let Some(w) = gate::wait_new_worker(n_before) {
        gate::set_free(&w);
    }
    let obs = observe(&rl, dir);
    let files_after = crate::session::dir_listing(dir);
    let mut cont = json!({"res": "skipped"});
    if do_cont {
        // a legal continuation: append the next entry, flush and wait, reopen, observe
        let st = rl.log_state().clone();
        let last = st.last().cloned();
        let id = match last {
            Some((t, i)) => (t + 1, i + 1),
            None => (1, 0),
        };
        let entry = json!([enc_u64(id.0), enc_u64(id.1), "cont", 4]);
        let fid = 900_000_000 + n_before as u64;
        let r = catch_unwind(AssertUnwindSafe(|| -> Result<(), std::io::Error> {
            rl.append([(id, make_payload("cont", 4))])?;
            rl.flush(Some(Cb { fid, sent: false }))?;
            Ok(())
        }));
        let res1 = match r {
            Ok(Ok(())) => match wait_cb(fid, Duration::from_secs(5)) {
                Some(true) => "ok".to_string(),
                Some(false) => "err:cb".to_string(),
                None => "err:cb_timeout".to_string(),
            },
            Ok(Err(e)) => err_class(&e),
            Err(p) => format!("panic:{}", panic_msg(p)),
        };
        let _ = catch_unwind(AssertUnwindSafe(move || drop(rl)));
        let mut obs2 = json!({});
        let mut res2 = "skipped".to_string();
        if res1 == "ok" {
            let n2 = gate::worker_count();
            match catch_unwind(AssertUnwindSafe(|| RaftLog::<VT>::open(config.clone()))) {
                Ok(Ok(rl2)) => {
                    if let Some(w) = gate::wait_new_worker(n2) {
                        gate::set_free(&w);
                    }
                    obs2 = observe(&rl2, dir);
                    res2 = "ok".to_string();
                    let _ = catch_unwind(AssertUnwindSafe(move || drop(rl2)));
                }
                Ok(Err(e)) => res2 = err_class(&e),
                Err(p) => res2 = format!("panic:{}", panic_msg(p)),
            }
        }
        let ok = res1 == "ok" && res2 == "ok";
        cont = json!({"res": if ok { "ok".to_string() } else { format!("{}|{}", res1, res2) },
                      "rc": if ok { "ok" } else if res1.starts_with("panic") || res2.starts_with("panic") { "panic" } else { "err" },
                      "entry": entry, "obs2": obs2});
    } else {
        let _ = catch_unwind(AssertUnwindSafe(move || drop(rl)));
    }
    json!({"res": "ok", "obs": obs, "files_after": files_after, "cont": cont})
}

fn rc_of(res: &str) -> &'static str {
    if res == "ok" {
        "ok"
    } else if res.starts_with("panic") {
        "panic"
    } else {
        "err"
    }
}

/// Crash probes over the FS log of directory `dirkey`.
/// opts: {"stride": n (every n-th position), "per_pos": k (images per position), "bytes": bool, "cont": bool, "tr": [..]}
pub fn crash_probes(fslog: &[FsRec], dirkey: &str, cfg: &Cfg, opts: &Value, seed: u64) -> Vec<ProbeOut> {
    let mut rng = Rng(seed.wrapping_mul(2654435761).wrapping_add(12345));
    let stride = opts["stride"].as_u64().unwrap_or(1).max(1);
    let per_pos = opts["per_pos"].as_u64().unwrap_or(6) as usize;
    let bytes = opts["bytes"].as_bool().unwrap_or(false);
    let do_cont = opts["cont"].as_bool().unwrap_or(true);
    let root = scratch_root();
    let _ = shim::unobserved(|| std::fs::create_dir_all(&root));
    let mut out = vec![];
    let positions: Vec<u64> = fslog
        .iter()
        .filter(|r| r.dir == dirkey && matches!(r.call, "creat" | "write" | "fdatasync" | "fsync" | "ftruncate" | "unlink") && r.file != "LOCK")
        .map(|r| r.seq)
        .collect();
    let mut state: BTreeMap<String, FileImg> = BTreeMap::new();
    let mut idx = 0usize;
    for (pi, pos) in positions.iter().enumerate() {
        while idx < fslog.len() && fslog[idx].seq <= *pos {
            if fslog[idx].dir == dirkey {
                image::apply(&mut state, &fslog[idx]);
            }
            idx += 1;
        }
        if (pi as u64) % stride != 0 && pi + 1 != positions.len() {
            continue;
        }
        let linked: Vec<(&String, &FileImg)> = state.iter().filter(|(n, f)| f.linked && n.as_str() != "LOCK").collect();
        if linked.is_empty() {
            continue;
        }
        // candidate images: (choice per file)
        let all_cuts: Vec<Vec<Cut>> = linked.iter().map(|(_, f)| cuts_of(f, bytes)).collect();
        let mut images: Vec<Vec<Cut>> = vec![];
        // process crash: everything kept
        images.push(all_cuts.iter().map(|c| c[0].clone()).collect());
        // maximal loss: every file at its synced length (choice index 1 if it exists)
        images.push(all_cuts.iter().map(|c| if c.len() > 1 { c[1].clone() } else { c[0].clone() }).collect());
        // one file deviates, the others keep everything / lose everything unsynced
        for (fi, cuts) in all_cuts.iter().enumerate() {
            for c in cuts.iter().skip(1) {
                for base in 0..2 {
                    let mut im: Vec<Cut> = all_cuts.iter().map(|cc| if base == 1 && cc.len() > 1 { cc[1].clone() } else { cc[0].clone() }).collect();
                    im[fi] = c.clone();
                    images.push(im);
                }
            }
        }
        // sample
        let mut chosen: Vec<Vec<Cut>> = vec![];
        if images.len() <= per_pos {
            chosen = images;
        } else {
            chosen.push(images[0].clone());
            chosen.push(images[1].clone());
            while chosen.len() < per_pos {
                let k = rng.below(images.len() as u64) as usize;
                chosen.push(images[k].clone());
            }
        }
        for (k, im) in chosen.iter().enumerate() {
            let mut files: BTreeMap<String, Vec<u8>> = BTreeMap::new();
            let mut desc = vec![];
            for ((name, f), c) in linked.iter().zip(im.iter()) {
                let mut content = f.content[..c.keep.min(f.content.len())].to_vec();
                content.extend(std::iter::repeat_n(0u8, c.zeros));
                desc.push(json!([shim::chunk_of(name), c.keep, c.zeros, c.tail, f.synced, f.content.len()]));
                files.insert((*name).clone(), content);
            }
            let trs: Vec<bool> = match opts["tr"].as_array() {
                Some(a) => a.iter().filter_map(|x| x.as_bool()).collect(),
                None => vec![cfg.tr.unwrap_or(true)],
            };
            for tr in trs {
                let dir = format!("{}/p{}_{}_{}", root, pos, k, tr as u8);
                image::materialize(&dir, &files);
                let before = image::dir_digest(&dir);
                let mut c2 = cfg.clone();
                c2.tr = Some(tr);
                let r = open_and_continue(&dir, &c2, do_cont);
                let res = r["res"].as_str().unwrap_or("").to_string();
                let same = res == "ok" || before == image::dir_digest(&dir);
                let _ = shim::unobserved(|| std::fs::remove_dir_all(&dir));
                let mut ev = json!({"e": "probe", "kind": "crash", "pos": pos, "img": desc, "tr": tr,
                                    "res": res, "rc": rc_of(&res), "cls": res.rsplit(':').next().unwrap_or(""),
                                    "obs": r["obs"], "files_after": r["files_after"], "same": same});
                if let Some(c) = r.get("cont") {
                    ev["cont"] = c.clone();
                }
                out.push(ProbeOut { pos: *pos, ev });
            }
        }
    }
    let _ = shim::unobserved(|| std::fs::remove_dir_all(&root));
    out
}
