//! Post-hoc probes on the recorded FS log of a finished run.
//!
//! crash probes: for FS-log positions p and images the crash model allows at p, the image is
//! materialised in a scratch directory outside the observed root, opened with the real
//! `RaftLog::open`, observed, continued (append, flush, reopen) and reported as a `probe`
//! event to be merged into the trace right after position p.  The monitor checks the image
//! against ITS OWN extents and judges the outcome; nothing is judged here.

use std::collections::BTreeMap;
use std::panic::AssertUnwindSafe;
use std::panic::catch_unwind;
use std::sync::Arc;
use std::time::Duration;

use raft_log::RaftLog;
use raft_log::api::raft_log_writer::RaftLogWriter;
use raft_log::codeq::OffsetSize;
use serde_json::Value;
use serde_json::json;

use crate::gate;
use crate::image;
use crate::image::FileImg;
use crate::session::Cfg;
use crate::session::observe;
use crate::session::panic_msg;
use crate::shim;
use crate::shim::FsRec;
use crate::types::Cb;
use crate::types::VT;
use crate::types::wait_cb;
use crate::util::*;

pub struct Rng(pub u64);
impl Rng {
    pub fn next(&mut self) -> u64 {
        self.0 = self.0.wrapping_mul(6364136223846793005).wrapping_add(1442695040888963407);
        self.0 >> 33
    }
    pub fn below(&mut self, n: u64) -> u64 {
        if n == 0 { 0 } else { self.next() % n }
    }
}

#[derive(Clone, Debug)]
pub struct Cut {
    pub keep: usize,
    pub zeros: usize,
    pub tail: &'static str,
}

/// The cut choices of one file under power loss: any record boundary >= synced, a torn record after it,
/// a zero-filled record after it; `bytes`: additionally every byte offset of the unsynced region.
pub fn cuts_of(f: &FileImg, bytes: bool) -> Vec<Cut> {
    let len = f.content.len();
    let mut out = vec![Cut { keep: len, zeros: 0, tail: "none" }];
    if f.synced >= len {
        return out;
    }
    let bounds = image::record_bounds(&f.content);
    let mut pts: Vec<usize> = bounds.iter().copied().filter(|b| *b >= f.synced && *b < len).collect();
    if !pts.contains(&f.synced) {
        pts.insert(0, f.synced);
    }
    for (i, b) in pts.iter().enumerate() {
        let next = bounds.iter().copied().find(|x| *x > *b).unwrap_or(len);
        let is_bound = bounds.contains(b);
        out.push(Cut { keep: *b, zeros: 0, tail: if is_bound { "none" } else { "part" } });
        if next > *b + 1 {
            out.push(Cut { keep: *b + (next - *b) / 2, zeros: 0, tail: "part" });
            if is_bound {
                out.push(Cut { keep: *b, zeros: next - *b, tail: "zero" });
            }
        }
        let _ = i;
    }
    if bytes {
        for k in f.synced..len {
            if !bounds.contains(&k) {
                out.push(Cut { keep: k, zeros: 0, tail: "part" });
            }
        }
    }
    out
}

pub struct ProbeOut {
    pub pos: u64,
    pub ev: Value,
}

fn scratch_root() -> String {
    format!("/dev/shm/rlp.{}", std::process::id())
}

/// Open an image, observe, continue, reopen.  Returns the JSON fields of the probe outcome.
pub fn open_and_continue(dir: &str, cfg: &Cfg, do_cont: bool) -> Value {
    let config = Arc::new(cfg.config(dir));
    let n_before = gate::worker_count();
    let r = catch_unwind(AssertUnwindSafe(|| RaftLog::<VT>::open(config.clone())));
    let mut rl = match r {
        Ok(Ok(rl)) => rl,
        Ok(Err(e)) => {
            return json!({"res": err_class(&e), "obs": {}, "files_after": crate::session::dir_listing(dir)});
        }
        Err(p) => {
            return json!({"res": format!("panic:{}", panic_msg(p)), "obs": {}, "files_after": crate::session::dir_listing(dir)});
        }
    };
    if let Some(w) = gate::wait_new_worker(n_before) {
        gate::set_free(&w);
    }
    let obs = observe(&rl, dir);
    let files_after = crate::session::dir_listing(dir);
    let mut cont = json!({"res": "skipped"});
    if do_cont {
        // a legal continuation: append the next entry, flush and wait, reopen, observe
        let st = rl.log_state().clone();
        let last = st.last().cloned();
        let id = match last {
            Some((t, i)) => (t + 1, i + 1),
            None => (1, 0),
        };
        let entry = json!([enc_u64(id.0), enc_u64(id.1), "cont", 4]);
        let fid = 900_000_000 + n_before as u64;
        let mut obs1 = json!({});
        let r = catch_unwind(AssertUnwindSafe(|| -> Result<(), std::io::Error> {
            rl.append([(id, make_payload("cont", 4))])?;
            // every live entry must be readable right away, whatever the cache limits are
            obs1 = observe(&rl, dir);
            rl.flush(Some(Cb { fid, sent: false }))?;
            Ok(())
        }));
        let res1 = match r {
            Ok(Ok(())) => match wait_cb(fid, Duration::from_secs(20)) {
                Some(true) => "ok".to_string(),
                Some(false) => "err:cb".to_string(),
                None => "err:cb_timeout".to_string(),
            },
            Ok(Err(e)) => err_class(&e),
            Err(p) => format!("panic:{}", panic_msg(p)),
        };
        let _ = catch_unwind(AssertUnwindSafe(move || drop(rl)));
        let mut obs2 = json!({});
        let mut res2 = "skipped".to_string();
        if res1 == "ok" {
            let n2 = gate::worker_count();
            match catch_unwind(AssertUnwindSafe(|| RaftLog::<VT>::open(config.clone()))) {
                Ok(Ok(rl2)) => {
                    if let Some(w) = gate::wait_new_worker(n2) {
                        gate::set_free(&w);
                    }
                    obs2 = observe(&rl2, dir);
                    res2 = "ok".to_string();
                    let _ = catch_unwind(AssertUnwindSafe(move || drop(rl2)));
                }
                Ok(Err(e)) => res2 = err_class(&e),
                Err(p) => res2 = format!("panic:{}", panic_msg(p)),
            }
        }
        let ok = res1 == "ok" && res2 == "ok";
        cont = json!({"res": if ok { "ok".to_string() } else { format!("{}|{}", res1, res2) },
                      "rc": if ok { "ok" } else if res1.starts_with("panic") || res2.starts_with("panic") { "panic" } else { "err" },
                      "entry": entry, "obs1": obs1, "obs2": obs2});
    } else {
        let _ = catch_unwind(AssertUnwindSafe(move || drop(rl)));
    }
    json!({"res": "ok", "obs": obs, "files_after": files_after, "cont": cont})
}

fn rc_of(res: &str) -> &'static str {
    if res == "ok" {
        "ok"
    } else if res.starts_with("panic") {
        "panic"
    } else {
        "err"
    }
}

/// Crash probes over the FS log of directory `dirkey`.
/// opts: {"stride": n (every n-th position), "per_pos": k (images per position), "bytes": bool, "cont": bool, "tr": [..]}
pub fn crash_probes(fslog: &[FsRec], dirkey: &str, cfg: &Cfg, opts: &Value, seed: u64) -> Vec<ProbeOut> {
    let mut rng = Rng(seed.wrapping_mul(2654435761).wrapping_add(12345));
    let stride = opts["stride"].as_u64().unwrap_or(1).max(1);
    let per_pos = opts["per_pos"].as_u64().unwrap_or(6) as usize;
    let bytes = opts["bytes"].as_bool().unwrap_or(false);
    let do_cont = opts["cont"].as_bool().unwrap_or(true);
    let gen2 = opts["gen2"].as_bool().unwrap_or(false);
    let root = scratch_root();
    let _ = shim::unobserved(|| std::fs::create_dir_all(&root));
    let mut out = vec![];
    let positions: Vec<u64> = fslog
        .iter()
        .filter(|r| r.dir == dirkey && matches!(r.call, "creat" | "write" | "fdatasync" | "fsync" | "ftruncate" | "unlink") && r.file != "LOCK")
        .map(|r| r.seq)
        .collect();
    let mut state: BTreeMap<String, FileImg> = BTreeMap::new();
    let mut idx = 0usize;
    for (pi, pos) in positions.iter().enumerate() {
        while idx < fslog.len() && fslog[idx].seq <= *pos {
            if fslog[idx].dir == dirkey {
                image::apply(&mut state, &fslog[idx]);
            }
            idx += 1;
        }
        if (pi as u64) % stride != 0 && pi + 1 != positions.len() {
            continue;
        }
        let linked: Vec<(&String, &FileImg)> = state.iter().filter(|(n, f)| f.linked && n.as_str() != "LOCK").collect();
        if linked.is_empty() {
            continue;
        }
        // candidate images: (choice per file)
        let all_cuts: Vec<Vec<Cut>> = linked.iter().map(|(_, f)| cuts_of(f, bytes)).collect();
        let mut images: Vec<Vec<Cut>> = vec![];
        // process crash: everything kept
        images.push(all_cuts.iter().map(|c| c[0].clone()).collect());
        // maximal loss: every file at its synced length (choice index 1 if it exists)
        images.push(all_cuts.iter().map(|c| if c.len() > 1 { c[1].clone() } else { c[0].clone() }).collect());
        // one file deviates, the others keep everything / lose everything unsynced
        for (fi, cuts) in all_cuts.iter().enumerate() {
            for c in cuts.iter().skip(1) {
                for base in 0..2 {
                    let mut im: Vec<Cut> = all_cuts.iter().map(|cc| if base == 1 && cc.len() > 1 { cc[1].clone() } else { cc[0].clone() }).collect();
                    im[fi] = c.clone();
                    images.push(im);
                }
            }
        }
        // sample
        let mut chosen: Vec<Vec<Cut>> = vec![];
        if images.len() <= per_pos {
            chosen = images;
        } else {
            chosen.push(images[0].clone());
            chosen.push(images[1].clone());
            while chosen.len() < per_pos {
                let k = rng.below(images.len() as u64) as usize;
                chosen.push(images[k].clone());
            }
        }
        for (k, im) in chosen.iter().enumerate() {
            let mut files: BTreeMap<String, Vec<u8>> = BTreeMap::new();
            let mut desc = vec![];
            for ((name, f), c) in linked.iter().zip(im.iter()) {
                let mut content = f.content[..c.keep.min(f.content.len())].to_vec();
                content.extend(std::iter::repeat_n(0u8, c.zeros));
                desc.push(json!([shim::chunk_of(name), c.keep, c.zeros, c.tail, f.synced, f.content.len()]));
                files.insert((*name).clone(), content);
            }
            let trs: Vec<bool> = match opts["tr"].as_array() {
                Some(a) => a.iter().filter_map(|x| x.as_bool()).collect(),
                None => vec![cfg.tr.unwrap_or(true)],
            };
            for tr in trs {
                let dir = format!("{}/p{}_{}_{}", root, pos, k, tr as u8);
                image::materialize(&dir, &files);
                let before = image::dir_digest(&dir);
                let mut c2 = cfg.clone();
                c2.tr = Some(tr);
                // every other image is recovered under unlimited chunk limits (the configuration may change
                // between runs): the recovered last chunk then stays the open chunk when writes continue
                let wide = k % 2 == 1;
                if wide {
                    c2.mr = None;
                    c2.ms = None;
                }
                let r = open_and_continue(&dir, &c2, do_cont);
                let res = r["res"].as_str().unwrap_or("").to_string();
                let same = res == "ok" || before == image::dir_digest(&dir);
                let _ = shim::unobserved(|| std::fs::remove_dir_all(&dir));
                // second generation: the machine dies again DURING this recovery, after each of its
                // file-modifying calls (the recovery is re-run under observation to learn those calls)
                if gen2 && res == "ok" && tr {
                    for ev2 in recovery_crash_probes(&files, &c2, do_cont, *pos, &desc, &mut rng) {
                        out.push(ProbeOut { pos: *pos, ev: ev2 });
                    }
                }
                let mut ev = json!({"e": "probe", "kind": "crash", "pos": pos, "img": desc, "tr": tr, "wide": wide,
                                    "res": res, "rc": rc_of(&res), "cls": res.rsplit(':').next().unwrap_or(""),
                                    "obs": r["obs"], "files_after": r["files_after"], "same": same});
                if let Some(c) = r.get("cont") {
                    ev["cont"] = c.clone();
                }
                out.push(ProbeOut { pos: *pos, ev });
            }
        }
    }
    let _ = shim::unobserved(|| std::fs::remove_dir_all(&root));
    out
}

/// Crash during the recovery of `files`: run the recovery once inside the observed root (quietly) to learn
/// its file-system calls, then open the directory as it is after each of its modifying calls -- once with
/// everything written kept, once with unsynced bytes (the new head) lost.
pub fn recovery_crash_probes(files: &BTreeMap<String, Vec<u8>>, cfg: &Cfg, do_cont: bool, pos: u64, parent: &[Value], rng: &mut Rng) -> Vec<Value> {
    let tracked_root = shim::shim().root.clone();
    let key = format!("g2.{}.{}", pos, rng.next() % 1_000_000);
    let tdir = format!("{}/{}", tracked_root, key);
    image::materialize(&tdir, files);
    let seq0 = {
        let sh = shim::shim();
        sh.seq
    };
    {
        let config = Arc::new(cfg.config(&tdir));
        let n_before = gate::worker_count();
        if let Ok(Ok(rl)) = catch_unwind(AssertUnwindSafe(|| RaftLog::<VT>::open(config))) {
            if let Some(w) = gate::wait_new_worker(n_before) {
                gate::set_free(&w);
                shim::shim().ignore_tids.insert(w);
            }
            drop(rl);
        }
    }
    let recs: Vec<FsRec> = shim::shim().fslog.iter().filter(|r| r.seq > seq0 && r.dir == key && r.tid == "c").cloned().collect();
    let _ = shim::unobserved(|| std::fs::remove_dir_all(&tdir));
    let mods: Vec<usize> = recs.iter().enumerate()
        .filter(|(_, r)| matches!(r.call, "ftruncate" | "unlink" | "creat" | "write") && r.file != "LOCK" && r.res >= 0)
        .map(|(i, _)| i).collect();
    let mut out = vec![];
    let root = scratch_root();
    for (k, upto) in mods.iter().enumerate() {
        let mut st: BTreeMap<String, FileImg> = files.iter()
            .map(|(n, c)| (n.clone(), FileImg { content: c.clone(), synced: c.len(), linked: true })).collect();
        for r in recs.iter().take(*upto + 1) {
            image::apply(&mut st, r);
        }
        for keep in [true, false] {
            let mut f2: BTreeMap<String, Vec<u8>> = BTreeMap::new();
            let mut desc = vec![];
            for (n, f) in st.iter() {
                if !f.linked || n == "LOCK" {
                    continue;
                }
                let len = if keep { f.content.len() } else { f.synced.min(f.content.len()) };
                desc.push(json!([shim::chunk_of(n), len, 0, "none", f.synced, f.content.len()]));
                f2.insert(n.clone(), f.content[..len].to_vec());
            }
            let dir = format!("{}/g2_{}_{}_{}", root, pos, k, keep as u8);
            image::materialize(&dir, &f2);
            let r = open_and_continue(&dir, cfg, do_cont);
            let res = r["res"].as_str().unwrap_or("").to_string();
            let _ = shim::unobserved(|| std::fs::remove_dir_all(&dir));
            let mut ev = json!({"e": "probe", "kind": "crash", "gen2": true, "after_call": k + 1, "pos": pos, "img": desc, "parent": parent,
                                "tr": true, "wide": false, "res": res, "rc": rc_of(&res), "cls": res.rsplit(':').next().unwrap_or(""),
                                "obs": r["obs"], "files_after": r["files_after"], "same": true});
            if let Some(c) = r.get("cont") {
                ev["cont"] = c.clone();
            }
            out.push(ev);
        }
    }
    out
}

/// Final (quiescent) image of the directory: every linked file with its full content.
pub fn final_image(fslog: &[FsRec], dirkey: &str) -> BTreeMap<String, Vec<u8>> {
    let st = image::rebuild(fslog, dirkey, u64::MAX);
    st.into_iter().filter(|(n, f)| f.linked && n != "LOCK").map(|(n, f)| (n, f.content)).collect()
}

fn run_image_probe(root: &str, tag: &str, files: &BTreeMap<String, Vec<u8>>, cfg: &Cfg, tr: bool, do_cont: bool, newest: &str) -> Value {
    let dir = format!("{}/{}", root, tag);
    image::materialize(&dir, files);
    let before = image::dir_digest(&dir);
    let mut c2 = cfg.clone();
    c2.tr = Some(tr);
    let r = open_and_continue(&dir, &c2, do_cont);
    let res = r["res"].as_str().unwrap_or("").to_string();
    let after = image::dir_digest(&dir);
    let same = before == after;
    // every file other than the newest byte-identical afterwards?
    let same_others = before.iter().filter(|(n, _)| n != newest).all(|(n, c)| after.iter().any(|(n2, c2)| n2 == n && c2 == c));
    let _ = shim::unobserved(|| std::fs::remove_dir_all(&dir));
    let mut ev = json!({"res": res, "rc": rc_of(&res), "cls": res.rsplit(':').next().unwrap_or(""), "tr": tr,
                        "obs": r["obs"], "files_after": r["files_after"], "same": same, "same_others": same_others});
    if let Some(c) = r.get("cont") {
        ev["cont"] = c.clone();
    }
    ev
}

/// The harness's own formatting of a chunk file name: 20 decimal digits, grouped 2+3+3+3+3+3+3 with '_'
/// (written from the documented format, independent of Config::chunk_file_name).
pub fn fmt_chunk_name(v: u64) -> String {
    let d = format!("{:020}", v);
    let mut s = String::from("r-");
    s.push_str(&d[0..2]);
    let mut i = 2;
    while i < 20 {
        s.push('_');
        s.push_str(&d[i..i + 3]);
        i += 3;
    }
    s.push_str(".wal");
    s
}

fn parse_chunk_name(n: &str) -> Option<u64> {
    let x = n.strip_prefix("r-")?.strip_suffix(".wal")?;
    let d: String = x.chars().filter(|c| c.is_ascii_digit()).collect();
    d.parse::<u64>().ok()
}

struct CodecRun {
    res: String,
    view: Value,
    names: Vec<String>,
    segs: Vec<(u64, u64)>,
    ods: u64,
}

/// open the image, observe, append three entries (rotations under chunk_max_records = 2), flush, drop, list
fn codec_run(dir: &str, cfg: &Cfg) -> CodecRun {
    let mut out = CodecRun { res: "ok".into(), view: json!({}), names: vec![], segs: vec![], ods: 0 };
    let config = Arc::new(cfg.config(dir));
    let n_before = gate::worker_count();
    let mut rl = match catch_unwind(AssertUnwindSafe(|| RaftLog::<VT>::open(config.clone()))) {
        Ok(Ok(rl)) => rl,
        Ok(Err(e)) => {
            out.res = format!("open:{}", err_class(&e));
            return out;
        }
        Err(p) => {
            out.res = format!("open:panic:{}", panic_msg(p));
            return out;
        }
    };
    if let Some(w) = gate::wait_new_worker(n_before) {
        gate::set_free(&w);
    }
    let o = observe(&rl, dir);
    out.view = json!({"st": o["st"], "es": o["es"], "esr": o["esr"]});
    let last = rl.log_state().last().cloned();
    let (t, i0) = match last {
        Some((t, i)) => (t + 1, i + 1),
        None => (1, 0),
    };
    let fid = 910_000_000 + n_before as u64;
    let mut segs = vec![];
    let mut ods = 0u64;
    let r = catch_unwind(AssertUnwindSafe(|| -> Result<(), std::io::Error> {
        for k in 0..3u64 {
            let seg = rl.append([((t, i0 + k), make_payload("cdc", 5))])?;
            segs.push((seg.offset().0, *seg.size()));
        }
        rl.flush(Some(Cb { fid, sent: false }))?;
        Ok(())
    }));
    out.res = match r {
        Ok(Ok(())) => match wait_cb(fid, Duration::from_secs(20)) {
            Some(true) => "ok".to_string(),
            Some(false) => "cont:err:cb".to_string(),
            None => "cont:err:cb_timeout".to_string(),
        },
        Ok(Err(e)) => format!("cont:{}", err_class(&e)),
        Err(p) => format!("cont:panic:{}", panic_msg(p)),
    };
    if out.res == "ok" {
        if let Ok(v) = catch_unwind(AssertUnwindSafe(|| rl.on_disk_size())) {
            ods = v;
        }
    }
    let _ = catch_unwind(AssertUnwindSafe(move || drop(rl)));
    out.segs = segs;
    out.ods = ods;
    let mut names: Vec<String> = shim::unobserved(|| {
        std::fs::read_dir(dir)
            .map(|rd| rd.flatten().map(|e| e.file_name().to_string_lossy().to_string()).filter(|n| n != "LOCK").collect())
            .unwrap_or_default()
    });
    names.sort();
    out.names = names;
    out
}

/// C11 ("all u64 offsets for the file-name encoding"): the final image is shifted to a base offset X -- every
/// chunk file renamed to the harness's formatting of (its offset + X), i.e. the directory of a store that has
/// journalled X more bytes and purged them.  The real store must open it with the same state and entries,
/// continue through rotations, and leave files whose names are the harness's formatting of X + the offsets
/// the unshifted run produces; returned segments and on_disk_size must shift by exactly X.
pub fn codec_probes(fslog: &[FsRec], dirkey: &str, cfg: &Cfg, opts: &Value, seed: u64, pos: u64) -> Vec<ProbeOut> {
    let mut rng = Rng(seed.wrapping_mul(2654435761).wrapping_add(13));
    let files = final_image(fslog, dirkey);
    if files.is_empty() || files.keys().any(|n| parse_chunk_name(n).is_none()) {
        return vec![];
    }
    let root = scratch_root();
    let _ = shim::unobserved(|| std::fs::create_dir_all(&root));
    let mut c2 = cfg.clone();
    c2.mr = Some(2);
    c2.tr = Some(true);
    let base_dir = format!("{}/cdc0", root);
    image::materialize(&base_dir, &files);
    let base = codec_run(&base_dir, &c2);
    let _ = shim::unobserved(|| std::fs::remove_dir_all(&base_dir));
    let mut out = vec![];
    if base.res != "ok" {
        return out;
    }
    let base_offs: Vec<u64> = base.names.iter().filter_map(|n| parse_chunk_name(n)).collect();
    let mut xs: Vec<u64> = vec![
        1, 999, 1_000, 999_999, 1_000_000, 4_294_967_295, 4_294_967_296, 1_000_000_000_000 - 1, 9_007_199_254_740_993,
        999_999_999_999_999_999, 1_000_000_000_000_000_000, 9_223_372_036_854_775_807, 9_223_372_036_854_775_808,
        9_999_999_999_999_999_000, 10_000_000_000_000_000_000, 18_446_744_073_708_000_000,
    ];
    // one random value per decimal length
    for k in 1..20u32 {
        let lo = 10u64.pow(k - 1);
        let hi = if k == 19 { 9_999_999_999_999_999_999 } else { 10u64.pow(k) - 1 };
        xs.push(lo + rng.below(hi - lo + 1));
    }
    let n_x = opts["n"].as_u64().unwrap_or(8) as usize;
    if xs.len() > n_x && !opts["all"].as_bool().unwrap_or(false) {
        let mut pick = vec![];
        for _ in 0..n_x {
            pick.push(xs[rng.below(xs.len() as u64) as usize]);
        }
        xs = pick;
    }
    xs.sort();
    xs.dedup();
    for (k, x) in xs.iter().enumerate() {
        let mut f2: BTreeMap<String, Vec<u8>> = BTreeMap::new();
        for (n, c) in files.iter() {
            f2.insert(fmt_chunk_name(parse_chunk_name(n).unwrap() + x), c.clone());
        }
        let dir = format!("{}/cdc{}", root, k + 1);
        image::materialize(&dir, &f2);
        let r = codec_run(&dir, &c2);
        let _ = shim::unobserved(|| std::fs::remove_dir_all(&dir));
        let want: Vec<String> = base_offs.iter().map(|o| fmt_chunk_name(o + x)).collect();
        let segs_ok = r.segs.len() == base.segs.len()
            && r.segs.iter().zip(base.segs.iter()).all(|(a, b)| a.0 == b.0.wrapping_add(*x) && a.1 == b.1);
        let ev = json!({"e": "probe", "kind": "codec", "x": x.to_string(), "res": r.res, "same_view": r.view == base.view,
                        "got": r.names, "want": want, "segs_ok": segs_ok || r.res != "ok",
                        "ods_ok": r.ods == base.ods || r.res != "ok"});
        out.push(ProbeOut { pos, ev });
    }
    let _ = shim::unobserved(|| std::fs::remove_dir_all(&root));
    out
}

/// C10: the newest chunk cut at byte positions / zero-filled from record boundaries.
/// opts: {"all_cuts": bool, "max_cuts": n, "cont": bool}
pub fn tail_probes(fslog: &[FsRec], dirkey: &str, cfg: &Cfg, opts: &Value, seed: u64, pos: u64) -> Vec<ProbeOut> {
    let mut rng = Rng(seed.wrapping_mul(40503).wrapping_add(77));
    let files = final_image(fslog, dirkey);
    let Some((newest, content)) = files.iter().max_by_key(|(n, _)| shim::chunk_of(n)).map(|(n, c)| (n.clone(), c.clone())) else {
        return vec![];
    };
    let ck = shim::chunk_of(&newest);
    let len = content.len();
    let bounds = image::record_bounds(&content);
    let root = scratch_root();
    let _ = shim::unobserved(|| std::fs::create_dir_all(&root));
    let max_cuts = opts["max_cuts"].as_u64().unwrap_or(60) as usize;
    let do_cont = opts["cont"].as_bool().unwrap_or(true);
    let mut cuts: Vec<usize> = (0..=len).collect();
    if cuts.len() > max_cuts && !opts["all_cuts"].as_bool().unwrap_or(false) {
        // all boundaries and their neighbours, plus a random sample
        let mut keep: Vec<usize> = vec![0, 1, len.saturating_sub(1), len];
        for (k, b) in bounds.iter().enumerate() {
            keep.push(*b);
            keep.push(b.saturating_sub(1));
            keep.push((*b + 1).min(len));
            keep.push((*b + 4).min(len));
            // inside every field of the record that starts here: ids, length prefix of a payload, payload body,
            // checksum (layout knowledge only chooses positions)
            let nb = bounds.get(k + 1).copied().unwrap_or(len);
            if nb > *b + 1 {
                for d in [12usize, 20, 21, 23, 24, 26] {
                    if *b + d < nb {
                        keep.push(*b + d);
                    }
                }
                keep.push(*b + (nb - *b) / 2);
                for d in [9usize, 8, 4] {
                    if nb > *b + d {
                        keep.push(nb - d);
                    }
                }
            }
        }
        while keep.len() < max_cuts {
            keep.push(rng.below(len as u64 + 1) as usize);
        }
        keep.sort();
        keep.dedup();
        cuts = keep;
    }
    let mut out = vec![];
    let mut n = 0;
    for x in cuts {
        for tr in [true, false] {
            let mut f2 = files.clone();
            f2.insert(newest.clone(), content[..x].to_vec());
            let mut ev = run_image_probe(&root, &format!("t{}", n), &f2, cfg, tr, do_cont && tr, &newest);
            n += 1;
            ev["e"] = json!("probe");
            ev["kind"] = json!("tail");
            ev["ck"] = json!(ck);
            ev["cut"] = json!(x);
            ev["zero"] = json!([0, 0]);
            ev["len"] = json!(len);
            out.push(ProbeOut { pos, ev });
        }
    }
    // zero tails from every record boundary, a few lengths each
    // (lengths around the read block of the zero scan, 1 KiB, and around 64 KiB: "any length" in the property)
    let zlens: Vec<usize> = vec![1, 2, 3, 4, 7, 8, 27, 28, 29, 64, 1023, 1024, 1025, 33 * 1024, 64 * 1024, 64 * 1024 + 1, 200 * 1024];
    let zbig: Vec<usize> = vec![64 * 1024, 64 * 1024 + 1, 200 * 1024];
    for b in bounds.iter() {
        let mut ls: Vec<usize> = vec![];
        let next = bounds.iter().copied().find(|y| *y > *b).unwrap_or(*b);
        if next > *b {
            ls.push(next - *b);
        }
        for _ in 0..(if opts["all_cuts"].as_bool().unwrap_or(false) { zlens.len() } else { 4 }) {
            ls.push(zlens[rng.below(zlens.len() as u64) as usize]);
        }
        ls.push(zbig[rng.below(zbig.len() as u64) as usize]);
        if opts["all_cuts"].as_bool().unwrap_or(false) {
            ls.extend(zlens.iter().copied());
        }
        ls.sort();
        ls.dedup();
        for l in ls {
            for tr in [true, false] {
                let mut c2 = content[..*b].to_vec();
                c2.extend(std::iter::repeat_n(0u8, l));
                let mut f2 = files.clone();
                f2.insert(newest.clone(), c2);
                let mut ev = run_image_probe(&root, &format!("z{}", n), &f2, cfg, tr, do_cont && tr, &newest);
                n += 1;
                ev["e"] = json!("probe");
                ev["kind"] = json!("tail");
                ev["ck"] = json!(ck);
                ev["cut"] = json!(-1);
                ev["zero"] = json!([b, l]);
                ev["len"] = json!(len);
                out.push(ProbeOut { pos, ev });
            }
        }
    }
    let _ = shim::unobserved(|| std::fs::remove_dir_all(&root));
    out
}

/// Which field of which record a byte position of a chunk file belongs to (layout knowledge, used only to
/// describe a probe, never to judge it).  Returns (field, record start, record end).
pub fn classify(content: &[u8], pos: usize) -> (&'static str, usize, usize) {
    let bounds = image::record_bounds(content);
    for w in bounds.windows(2) {
        let (s, e) = (w[0], w[1]);
        if pos >= s && pos < e {
            let off = pos - s;
            if off < 4 {
                return ("type", s, e);
            }
            if pos >= e - 8 {
                return ("checksum", s, e);
            }
            let t = u32::from_be_bytes([content[s], content[s + 1], content[s + 2], content[s + 3]]);
            return match t {
                1 => {
                    if off < 20 {
                        ("int", s, e)
                    } else if off < 24 {
                        ("len_prefix", s, e)
                    } else {
                        ("payload", s, e)
                    }
                }
                3 => {
                    if off == 4 {
                        ("opt_tag", s, e)
                    } else {
                        ("int", s, e)
                    }
                }
                5 => {
                    // ver, 4 x option<id>, option<string>
                    let mut q = s + 4;
                    if pos == q {
                        return ("ver", s, e);
                    }
                    q += 1;
                    for _ in 0..4 {
                        if pos == q {
                            return ("opt_tag", s, e);
                        }
                        let some = content[q] != 0;
                        q += 1;
                        if some {
                            if pos < q + 16 {
                                return ("int", s, e);
                            }
                            q += 16;
                        }
                    }
                    if pos == q {
                        return ("opt_tag", s, e);
                    }
                    if content[q] != 0 {
                        q += 1;
                        if pos < q + 4 {
                            return ("len_prefix", s, e);
                        }
                        return ("payload", s, e);
                    }
                    ("int", s, e)
                }
                _ => ("int", s, e),
            };
        }
    }
    ("beyond", content.len(), content.len())
}

/// How decoding of the (damaged) record that starts at `rs` ends, following the decoder's read order:
/// "eof" (it asks for more bytes than the file has), "invalid" (a value or the checksum is rejected).
/// Layout knowledge used only to describe a probe.
pub fn decode_outcome(c: &[u8], rs: usize) -> &'static str {
    let mut q = rs;
    let need = |q: usize, n: usize| q + n <= c.len();
    let u32_at = |q: usize| u32::from_be_bytes([c[q], c[q + 1], c[q + 2], c[q + 3]]) as usize;
    if !need(q, 4) {
        return "eof";
    }
    let t = u32_at(q);
    q += 4;
    // Option<(u64,u64)>
    let opt_id = |q: &mut usize| -> Option<&'static str> {
        if !need(*q, 1) {
            return Some("eof");
        }
        let tag = c[*q];
        *q += 1;
        match tag {
            0 => None,
            1 => {
                if !need(*q, 16) {
                    return Some("eof");
                }
                *q += 16;
                None
            }
            _ => Some("invalid"),
        }
    };
    let string = |q: &mut usize| -> Option<&'static str> {
        if !need(*q, 4) {
            return Some("eof");
        }
        let n = u32_at(*q);
        *q += 4;
        if !need(*q, n) {
            return Some("eof");
        }
        if std::str::from_utf8(&c[*q..*q + n]).is_err() {
            return Some("invalid");
        }
        *q += n;
        None
    };
    match t {
        0 | 2 | 4 => {
            if !need(q, 16) {
                return "eof";
            }
            q += 16;
        }
        1 => {
            if !need(q, 16) {
                return "eof";
            }
            q += 16;
            if let Some(r) = string(&mut q) {
                return r;
            }
        }
        3 => {
            if let Some(r) = opt_id(&mut q) {
                return r;
            }
        }
        5 => {
            if !need(q, 1) {
                return "eof";
            }
            if c[q] != 1 {
                return "invalid";
            }
            q += 1;
            for _ in 0..4 {
                if let Some(r) = opt_id(&mut q) {
                    return r;
                }
            }
            if !need(q, 1) {
                return "eof";
            }
            let tag = c[q];
            q += 1;
            match tag {
                0 => {}
                1 => {
                    if let Some(r) = string(&mut q) {
                        return r;
                    }
                }
                _ => return "invalid",
            }
        }
        _ => return "invalid",
    }
    if !need(q, 8) {
        return "eof";
    }
    "invalid" // a damaged record that parses to its end fails the checksum
}

/// C09: every (sampled) byte of every complete record altered; every middle chunk removed.
/// opts: {"max_pos": n, "all_bits": bool}
pub fn damage_probes(fslog: &[FsRec], dirkey: &str, cfg: &Cfg, opts: &Value, seed: u64, pos: u64) -> Vec<ProbeOut> {
    let mut rng = Rng(seed.wrapping_mul(69069).wrapping_add(5));
    let files = final_image(fslog, dirkey);
    if files.is_empty() {
        return vec![];
    }
    let newest = files.keys().max_by_key(|n| shim::chunk_of(n)).unwrap().clone();
    let oldest = files.keys().min_by_key(|n| shim::chunk_of(n)).unwrap().clone();
    let root = scratch_root();
    let _ = shim::unobserved(|| std::fs::create_dir_all(&root));
    let max_pos = opts["max_pos"].as_u64().unwrap_or(150) as usize;
    let all_bits = opts["all_bits"].as_bool().unwrap_or(false);
    // candidate positions: all bytes of complete records of all files
    let mut cands: Vec<(String, usize)> = vec![];
    for (name, c) in files.iter() {
        let b = image::record_bounds(c);
        let end = *b.last().unwrap_or(&0);
        for p in 0..end {
            cands.push((name.clone(), p));
        }
    }
    let mut chosen: Vec<(String, usize)> = vec![];
    if cands.len() <= max_pos {
        chosen = cands;
    } else {
        // every length prefix / type / option tag byte is rare: make sure structural bytes are covered
        for (name, p) in cands.iter() {
            let f = classify(&files[name], *p).0;
            if matches!(f, "len_prefix" | "type" | "opt_tag" | "ver") && rng.below(3) == 0 && chosen.len() < max_pos / 2 {
                chosen.push((name.clone(), *p));
            }
        }
        while chosen.len() < max_pos {
            chosen.push(cands[rng.below(cands.len() as u64) as usize].clone());
        }
    }
    let mut out = vec![];
    let mut n = 0;
    for (name, p) in chosen {
        let content = &files[&name];
        let old = content[p];
        let mut vals: Vec<u8> = vec![];
        if all_bits {
            for b in 0..8 {
                vals.push(old ^ (1 << b));
            }
            vals.push(0);
            vals.push(0xFF);
            vals.push(rng.below(256) as u8);
        } else {
            vals.push(old ^ (1 << rng.below(8)));
            vals.push(old ^ (1 << rng.below(8)));
            vals.push(if rng.below(2) == 0 { 0 } else { 0xFF });
        }
        vals.sort();
        vals.dedup();
        vals.retain(|v| *v != old);
        let (field, rs, _re) = classify(content, p);
        for v in vals {
            let mut c2 = content.clone();
            c2[p] = v;
            // does decoding the altered record ask for more bytes than the file has?
            let past_eof = decode_outcome(&c2, rs) == "eof";
            let mut f2 = files.clone();
            f2.insert(name.clone(), c2);
            let mut ev = run_image_probe(&root, &format!("d{}", n), &f2, cfg, true, false, &newest);
            n += 1;
            ev["e"] = json!("probe");
            ev["kind"] = json!("damage");
            ev["ck"] = json!(shim::chunk_of(&name));
            ev["at"] = json!(p);
            ev["old"] = json!(old);
            ev["new"] = json!(v);
            ev["field"] = json!(field);
            ev["past_eof"] = json!(past_eof);
            ev["newest"] = json!(name == newest);
            out.push(ProbeOut { pos, ev });
        }
    }
    // every middle chunk removed -- on the final image, and on the images a crash right after a rotation
    // produces (newest chunk empty / cut inside its head record)
    for name in files.keys() {
        if *name == newest || *name == oldest {
            continue;
        }
        for variant in 0..3 {
            let mut f2 = files.clone();
            f2.remove(name);
            match variant {
                1 => {
                    f2.insert(newest.clone(), vec![]);
                }
                2 => {
                    let c = &files[&newest];
                    f2.insert(newest.clone(), c[..c.len().min(7)].to_vec());
                }
                _ => {}
            }
            let mut ev = run_image_probe(&root, &format!("m{}", n), &f2, cfg, true, false, &newest);
            n += 1;
            ev["e"] = json!("probe");
            ev["kind"] = json!("missing");
            ev["ck"] = json!(shim::chunk_of(name));
            ev["newest_cut"] = json!(variant);
            out.push(ProbeOut { pos, ev });
        }
    }
    let _ = shim::unobserved(|| std::fs::remove_dir_all(&root));
    out
}
