//! A session executes a script of steps (API calls, worker steps, crashes,
//! faults, probes) against the real `RaftLog` and logs what is observable.
//! It contains no oracle: every judgement is made by the TLA+ monitor.

use std::collections::BTreeMap;
use std::io;
use std::panic::AssertUnwindSafe;
use std::panic::catch_unwind;
use std::sync::Arc;
use std::time::Duration;
use std::time::Instant;

use raft_log::Config;
use raft_log::DumpApi;
use raft_log::RaftLog;
use raft_log::WALRecord;
use raft_log::api::raft_log_writer::RaftLogWriter;
use raft_log::codeq::OffsetSize;
use serde_json::Value;
use serde_json::json;

use crate::gate;
use crate::image;
use crate::state_json;
use crate::shim;
use crate::types::Cb;
use crate::types::VT;
use crate::types::wait_cb;
use crate::util::*;

#[derive(Clone, Debug, Default)]
pub struct Cfg {
    pub mr: Option<usize>,
    pub ms: Option<usize>,
    pub ci: Option<usize>,
    pub cc: Option<usize>,
    pub rb: Option<usize>,
    pub tr: Option<bool>,
}

fn opt_usize(v: &Value) -> Option<usize> {
    v.as_u64().map(|x| x as usize)
}

impl Cfg {
    pub fn from_json(v: &Value) -> Cfg {
        Cfg {
            mr: opt_usize(&v["mr"]),
            ms: opt_usize(&v["ms"]),
            ci: opt_usize(&v["ci"]),
            cc: opt_usize(&v["cc"]),
            rb: opt_usize(&v["rb"]),
            tr: v["tr"].as_bool(),
        }
    }

    /// -1 encodes "default"
    pub fn to_json(&self) -> Value {
        let f = |x: Option<usize>| x.map(|v| enc_u64(v as u64)).unwrap_or(-1);
        json!({"mr": f(self.mr), "ms": f(self.ms), "ci": f(self.ci), "cc": f(self.cc),
               "rb": f(self.rb), "tr": self.tr.unwrap_or(true)})
    }

    pub fn config(&self, dir: &str) -> Config {
        Config {
            dir: dir.to_string(),
            log_cache_max_items: self.ci,
            log_cache_capacity: self.cc,
            read_buffer_size: self.rb,
            chunk_max_records: self.mr,
            chunk_max_size: self.ms,
            truncate_incomplete_record: self.tr,
        }
    }
}

pub fn panic_msg(p: Box<dyn std::any::Any + Send>) -> String {
    if let Some(s) = p.downcast_ref::<&str>() {
        s.to_string()
    } else if let Some(s) = p.downcast_ref::<String>() {
        s.clone()
    } else {
        "?".to_string()
    }
}

pub fn rec_json(r: &WALRecord<VT>) -> Value {
    match r {
        WALRecord::SaveVote(v) => json!({"k": "vote", "v": enc_id(Some(v))}),
        WALRecord::Append(id, p) => {
            let (tok, len) = proj_payload(p);
            json!({"k": "app", "id": enc_id(Some(id)), "p": [tok, len]})
        }
        WALRecord::Commit(id) => json!({"k": "commit", "id": enc_id(Some(id))}),
        WALRecord::TruncateAfter(id) => json!({"k": "trunc", "id": enc_id(id.as_ref())}),
        WALRecord::PurgeUpto(id) => json!({"k": "purge", "id": enc_id(Some(id))}),
        WALRecord::State(s) => json!({"k": "state", "st": state_json!(s)}),
    }
}

/// `RaftLogState` cannot be named from outside the crate; project it by macro.
#[macro_export]
macro_rules! state_json {
    ($s:expr) => {{
        let s = $s;
        serde_json::json!({
            "v": $crate::util::enc_id(s.vote()),
            "l": $crate::util::enc_id(s.last()),
            "c": $crate::util::enc_id(s.committed()),
            "p": $crate::util::enc_id(s.purged()),
            "u": $crate::util::enc_user(s.user_data.as_ref()),
        })
    }};
}

/// Everything observable about an open store, taken through the public API
/// (plus the guarded cache accessor).
pub fn observe(rl: &RaftLog<VT>, dir: &str) -> Value {
    let st = state_json!(rl.log_state());
    let es = catch_unwind(AssertUnwindSafe(|| {
        let mut out = vec![];
        for r in rl.read(0, u64::MAX) {
            match r {
                Ok((id, p)) => {
                    let (tok, len) = proj_payload(&p);
                    out.push(json!([enc_u64(id.0), enc_u64(id.1), tok, len]));
                }
                Err(e) => {
                    return Err(err_class(&e));
                }
            }
        }
        Ok(out)
    }));
    let (es, es_res) = match es {
        Ok(Ok(v)) => (json!(v), "ok".to_string()),
        Ok(Err(e)) => (json!([]), e),
        Err(p) => (json!([]), format!("panic:{}", panic_msg(p))),
    };
    let stat = rl.stat();
    let mut chunks = vec![];
    for c in stat.closed_chunks.iter() {
        chunks.push(json!([enc_u64(c.chunk_id.0), c.records_count, enc_u64(c.global_start), enc_u64(c.global_end), 0, enc_id(c.log_state.last())]));
    }
    let o = &stat.open_chunk;
    chunks.push(json!([enc_u64(o.chunk_id.0), o.records_count, enc_u64(o.global_start), enc_u64(o.global_end), 1, enc_id(o.log_state.last())]));
    let (resident, ev, size, len) = rl.verif_cache_snapshot();
    let resident: Vec<Value> =
        resident.iter().map(|(id, sz)| json!([enc_u64(id.0), enc_u64(id.1), sz])).collect();
    let ods = catch_unwind(AssertUnwindSafe(|| rl.on_disk_size()));
    let ods = match ods {
        Ok(v) => enc_u64(v),
        Err(_) => -1,
    };
    json!({
        "st": st, "es": es, "esr": es_res, "chunks": chunks,
        "cache": {"n": stat.payload_cache_item_count, "sz": stat.payload_cache_size,
                  "ev": enc_id(stat.payload_cache_last_evictable.as_ref()),
                  "res": resident, "sev": enc_id(ev.as_ref()), "ssz": size, "sn": len},
        "ods": ods,
        "dir": dir_listing(dir),
    })
}

pub fn dir_listing(dir: &str) -> Value {
    let mut v: Vec<(i64, u64, String)> = vec![];
    if let Ok(rd) = std::fs::read_dir(dir) {
        for e in rd.flatten() {
            let name = e.file_name().to_string_lossy().to_string();
            let sz = e.metadata().map(|m| m.len()).unwrap_or(0);
            v.push((shim::chunk_of(&name), sz, name));
        }
    }
    v.sort();
    json!(v.iter().filter(|x| x.0 != -1).map(|(ck, sz, _n)| json!([ck, sz])).collect::<Vec<_>>())
}

pub struct Session {
    pub root: String,
    pub run: u64,
    pub generation: u64,
    pub dir: String,
    pub rl: Option<RaftLog<VT>>,
    pub wid: Option<String>,
    pub workers: Vec<String>,
    pub cfg: Cfg,
    pub first_cfg: Option<Cfg>,
    pub next_fid: u64,
    pub inst_sent: u64,
    /// per worker: sends addressed to its instance
    pub sent_of: BTreeMap<String, u64>,
    /// workers whose instance has been dropped (channel closed)
    pub closed_of: BTreeMap<String, bool>,
    pub obs_every: bool,
    pub flushes: Vec<u64>,
    pub contenders: BTreeMap<u64, Contender>,
}

/// A C13 contender holding (or having tried to hold) the directory.
pub enum Contender {
    Store(RaftLog<VT>),
    Dump(raft_log::Dump<VT>),
    Child(std::process::Child),
}

fn ev(mut v: Value) {
    // derive the result class so that the monitor needs no string parsing
    if let Some(res) = v.get("res").and_then(|r| r.as_str()).map(|s| s.to_string()) {
        let rc = if res == "ok" {
            "ok"
        } else if res.starts_with("err") {
            "err"
        } else if res.starts_with("panic") {
            "panic"
        } else {
            "none"
        };
        v["rc"] = json!(rc);
        v["cls"] = json!(res.rsplit(':').next().unwrap_or(""));
    }
    shim::log_event(v);
}

impl Session {
    pub fn new(root: &str, run: u64) -> Session {
        let dir = format!("{}/{}.0", root, run);
        let _ = std::fs::remove_dir_all(&dir);
        std::fs::create_dir_all(&dir).unwrap();
        Session {
            root: root.to_string(),
            run,
            generation: 0,
            dir,
            rl: None,
            wid: None,
            workers: vec![],
            cfg: Cfg::default(),
            first_cfg: None,
            next_fid: 0,
            inst_sent: 0,
            sent_of: BTreeMap::new(),
            closed_of: BTreeMap::new(),
            obs_every: true,
            flushes: vec![],
            contenders: BTreeMap::new(),
        }
    }

    fn obs(&self) -> Value {
        match &self.rl {
            Some(rl) => observe(rl, &self.dir),
            None => json!({}),
        }
    }

    /// Run an API call on the open store with panic capture and send accounting.
    fn call<R>(&mut self, f: impl FnOnce(&mut RaftLog<VT>) -> R) -> Result<R, String> {
        let Some(rl) = self.rl.as_mut() else {
            return Err("noinst".to_string());
        };
        let s0 = gate::sent_total();
        let r = catch_unwind(AssertUnwindSafe(|| f(rl)));
        let s1 = gate::sent_total();
        self.inst_sent += s1 - s0;
        if let Some(w) = &self.wid {
            self.sent_of.insert(w.clone(), self.inst_sent);
        }
        r.map_err(|p| format!("panic:{}", panic_msg(p)))
    }

    fn write_call(&mut self, op: &str, args: Value, f: impl FnOnce(&mut RaftLog<VT>) -> Result<raft_log::Segment, io::Error>) {
        ev(json!({"e": "b", "op": op, "args": args}));
        let r = self.call(f);
        let (res, seg) = match r {
            Ok(Ok(seg)) => ("ok".to_string(), json!([enc_u64(seg.offset().0), enc_u64(*seg.size())])),
            Ok(Err(e)) => (err_class(&e), json!([0, 0])),
            Err(p) => (p, json!([0, 0])),
        };
        let panicked = res.starts_with("panic");
        let obs = if panicked { json!({}) } else { self.obs() };
        ev(json!({"e": "r", "op": op, "res": res, "seg": seg, "obs": obs}));
        if panicked {
            self.abandon();
        }
    }

    /// Give up the current instance without running its destructor logic on the trace:
    /// the worker is released and ignored.
    pub fn abandon(&mut self) {
        if let Some(w) = self.wid.take() {
            shim::shim().ignore_tids.insert(w.clone());
            gate::set_free(&w);
            self.closed_of.insert(w, true);
        }
        if let Some(rl) = self.rl.take() {
            let _ = catch_unwind(AssertUnwindSafe(move || drop(rl)));
        }
    }

    pub fn open(&mut self, cfg: Cfg) {
        self.cfg = cfg.clone();
        if self.first_cfg.is_none() {
            self.first_cfg = Some(cfg.clone());
        }
        let n_before = gate::worker_count();
        ev(json!({"e": "b", "op": "open", "args": cfg.to_json()}));
        let config = Arc::new(cfg.config(&self.dir));
        let r = catch_unwind(AssertUnwindSafe(|| RaftLog::<VT>::open(config)));
        let res = match r {
            Ok(Ok(rl)) => {
                self.rl = Some(rl);
                self.inst_sent = 0;
                let w = gate::wait_new_worker(n_before);
                if let Some(w) = &w {
                    if gate::mode() == gate::Mode::Gated {
                        gate::wait_parked(w);
                    }
                    self.workers.push(w.clone());
                    self.sent_of.insert(w.clone(), 0);
                    self.closed_of.insert(w.clone(), false);
                }
                self.wid = w;
                "ok".to_string()
            }
            Ok(Err(e)) => err_class(&e),
            Err(p) => format!("panic:{}", panic_msg(p)),
        };
        let obs = self.obs();
        let widx = self.workers.len();
        let wl = self.wid.clone().unwrap_or_default();
        ev(json!({"e": "r", "op": "open", "res": res, "seg": [0, 0], "obs": obs, "w": widx, "wl": wl,
                  "dir": dir_listing(&self.dir)}));
    }

    pub fn drop_store(&mut self) {
        ev(json!({"e": "b", "op": "drop", "args": {}}));
        if let Some(rl) = self.rl.take() {
            let wid = self.wid.take();
            if let Some(w) = &wid {
                self.closed_of.insert(w.clone(), true);
            }
            // The drop may wait for the worker; in gated mode the worker is parked, so the
            // drop runs on a helper thread while this thread keeps stepping the worker.
            let h = std::thread::Builder::new()
                .name("driver".into())
                .spawn(move || catch_unwind(AssertUnwindSafe(move || drop(rl))).is_ok())
                .unwrap();
            let mut stepped = 0u64;
            if gate::mode() == gate::Mode::Gated {
                let t0 = Instant::now();
                // A drop that quiesces the store cannot return while its worker is parked with work
                // pending.  Give it time to return on its own (a bounded wait inside drop would show
                // here) before the worker is stepped; an idle worker needs no such grace.
                let pending = wid.as_ref().map(|w| {
                    let at = gate::parked(w).map(|p| p.0).unwrap_or_default();
                    !(at == "recv" && self.queue_len(w) == 0)
                }).unwrap_or(false);
                let grace = if pending { Duration::from_millis(400) } else { Duration::from_millis(3) };
                while !h.is_finished() {
                    if t0.elapsed() < grace {
                        std::thread::sleep(Duration::from_micros(100));
                        continue;
                    }
                    let Some(w) = &wid else { break };
                    let k = self.workers.iter().position(|x| x == w).unwrap() + 1;
                    let r = self.wstep(k);
                    if r == "exited" || r == "noworker" || r.starts_with("err") {
                        break;
                    }
                    if r == "notparked" || r == "blocked" {
                        std::thread::sleep(Duration::from_micros(100));
                    } else {
                        stepped += 1;
                    }
                    if t0.elapsed() > Duration::from_secs(60) {
                        break;
                    }
                }
            }
            let ok = h.join().unwrap_or(false);
            let r: Result<(), ()> = if ok { Ok(()) } else { Err(()) };
            let _ = stepped;
            let res = if r.is_ok() { "ok" } else { "panic" };
            ev(json!({"e": "r", "op": "drop", "res": res, "seg": [0, 0], "obs": {}, "dir": dir_listing(&self.dir)}));
        } else {
            ev(json!({"e": "r", "op": "drop", "res": "noinst", "seg": [0, 0], "obs": {}}));
        }
    }

    fn queue_len(&self, w: &str) -> u64 {
        let sent = self.sent_of.get(w).copied().unwrap_or(0);
        let rcvd = gate::wstate(w).map(|s| s.received).unwrap_or(0);
        sent.saturating_sub(rcvd)
    }

    /// One gated worker step. Returns the stop the worker parked at afterwards.
    pub fn wstep(&mut self, k: usize) -> String {
        let Some(w) = self.workers.get(k.wrapping_sub(1)).cloned() else {
            return "noworker".into();
        };
        let at = gate::parked(&w);
        if let Some((name, _)) = &at {
            if name == "exit" {
                return "exited".into();
            }
            if name == "recv" && self.queue_len(&w) == 0 && !self.closed_of.get(&w).copied().unwrap_or(false) {
                return "blocked".into();
            }
        } else {
            return "notparked".into();
        }
        match gate::step(&w) {
            Ok((name, arg)) => format!("{}:{}", name, enc_u64(arg)),
            Err(e) => format!("err:{:?}", e),
        }
    }

    /// Step worker k until it is parked at `recv` with an empty queue (or has exited).
    pub fn wrun_idle(&mut self, k: usize) -> u64 {
        let mut n = 0;
        loop {
            let r = self.wstep(k);
            if r == "blocked" || r == "exited" || r == "noworker" || r == "notparked" || r.starts_with("err") {
                return n;
            }
            n += 1;
            if n > 100_000 {
                return n;
            }
        }
    }

    /// Free/jitter mode: wait until the worker has completed everything sent so far, or died.
    pub fn wait_idle(&mut self) -> &'static str {
        let Some(w) = self.wid.clone() else {
            return "noinst";
        };
        if gate::mode() == gate::Mode::Gated {
            let k = self.workers.iter().position(|x| *x == w).unwrap() + 1;
            self.wrun_idle(k);
            return "ok";
        }
        let deadline = Instant::now() + Duration::from_secs(20);
        loop {
            let st = gate::wstate(&w).unwrap_or_default();
            if st.exited {
                return "dead";
            }
            if st.last_done >= self.inst_sent {
                return "ok";
            }
            if Instant::now() > deadline {
                return "timeout";
            }
            std::thread::sleep(Duration::from_micros(50));
        }
    }

    /// Execute one script step.  A panic that escapes the step's own handling (a public operation that is
    /// not individually wrapped) is reported as an `hp` event and the instance is abandoned.
    pub fn exec(&mut self, step: &Value) {
        ev(json!({"e": "step", "step": step}));
        let r = catch_unwind(AssertUnwindSafe(|| self.exec_inner(step)));
        if let Err(p) = r {
            let a = step["a"].as_str().unwrap_or("").to_string();
            ev(json!({"e": "hp", "op": a, "res": format!("panic:{}", panic_msg(p))}));
            let _ = catch_unwind(AssertUnwindSafe(|| self.abandon()));
        }
    }

    fn exec_inner(&mut self, step: &Value) {
        let a = step["a"].as_str().unwrap_or("");
        match a {
            "open" => {
                let cfg = Cfg::from_json(&step["cfg"]);
                self.open(cfg);
            }
            "drop" => self.drop_store(),
            "reopen" => {
                self.drop_store();
                let cfg = if step["cfg"].is_object() { Cfg::from_json(&step["cfg"]) } else { self.cfg.clone() };
                self.open(cfg);
            }
            "vote" => {
                let v = dec_id(&step["v"]);
                self.write_call("vote", json!({"v": enc_id(Some(&v))}), move |rl| rl.save_vote(v));
            }
            "append" => {
                let mut es = vec![];
                let mut args = vec![];
                for e in step["es"].as_array().cloned().unwrap_or_default() {
                    let id = dec_id(&e);
                    let tok = e[2].as_str().unwrap_or("p").to_string();
                    let len = e[3].as_u64().unwrap_or(tok.len() as u64) as usize;
                    let p = make_payload(&tok, len);
                    let (ptok, plen) = proj_payload(&p);
                    args.push(json!([enc_u64(id.0), enc_u64(id.1), ptok, plen]));
                    es.push((id, p));
                }
                self.write_call("append", json!({"es": args}), move |rl| rl.append(es));
            }
            "truncate" => {
                let i = dec_u64(&step["i"]);
                self.write_call("truncate", json!({"i": enc_u64(i)}), move |rl| rl.truncate(i));
            }
            "purge" => {
                let id = dec_id(&step["id"]);
                self.write_call("purge", json!({"id": enc_id(Some(&id))}), move |rl| rl.purge(id));
            }
            "commit" => {
                let id = dec_id(&step["id"]);
                self.write_call("commit", json!({"id": enc_id(Some(&id))}), move |rl| rl.commit(id));
            }
            "userdata" => {
                let u = dec_user(&step["u"]);
                let ul = u.as_ref().map(|x| x.len()).unwrap_or(0);
                self.write_call("userdata", json!({"u": enc_user(u.as_ref()), "ul": ul}), move |rl| rl.save_user_data(u));
            }
            "flush" => {
                let with_cb = step["cb"].as_bool().unwrap_or(true);
                self.next_fid += 1;
                let fid = self.next_fid;
                ev(json!({"e": "b", "op": "flush", "args": {"fid": fid, "cb": with_cb}}));
                let r = self.call(move |rl| rl.flush(if with_cb { Some(Cb::new(fid)) } else { None }));
                let res = match r {
                    Ok(Ok(())) => "ok".to_string(),
                    Ok(Err(e)) => err_class(&e),
                    Err(p) => p,
                };
                if with_cb {
                    self.flushes.push(fid);
                }
                let panicked = res.starts_with("panic");
                ev(json!({"e": "r", "op": "flush", "res": res, "seg": [0, 0], "obs": {}, "fid": fid}));
                if panicked {
                    self.abandon();
                }
            }
            "read" => {
                let from = dec_u64(&step["from"]);
                let to = dec_u64(&step["to"]);
                let r = self.read_range(from, to);
                ev(json!({"e": "rd", "from": enc_u64(from), "to": enc_u64(to), "res": r.0, "es": r.1, "t": "c"}));
                if r.0.starts_with("panic") {
                    self.abandon();
                }
            }
            "iter" => {
                let r = self.read_iter();
                ev(json!({"e": "it", "res": r.0, "es": r.1, "st": r.2}));
            }
            "obs" => {
                let o = self.obs();
                ev(json!({"e": "obs", "obs": o}));
            }
            "dump" => {
                let d = self.dump();
                ev(json!({"e": "dump", "res": d.0, "recs": d.1, "dir": dir_listing(&self.dir)}));
            }
            "w" => {
                // n absent or 0: the worker of the current instance
                let cur = self.wid.as_ref().and_then(|w| self.workers.iter().position(|x| x == w)).map(|p| p + 1).unwrap_or(self.workers.len());
                let k = match step["n"].as_u64() {
                    Some(n) if n > 0 => n as usize,
                    _ => cur,
                };
                let r = self.wstep(k);
                ev(json!({"e": "ws", "w": k, "at": r}));
            }
            "wrun" => {
                let k = step["n"].as_u64().unwrap_or(1) as usize;
                let n = self.wrun_idle(k);
                ev(json!({"e": "wrun", "w": k, "steps": n}));
            }
            "wuntil" => {
                // step worker n until it is parked at a stop whose name starts with `at`
                let k = step["n"].as_u64().unwrap_or(1) as usize;
                let at = step["at"].as_str().unwrap_or("done").to_string();
                let mut r = String::from("none");
                let mut n = 0;
                while n < 500 {
                    r = self.wstep(k);
                    n += 1;
                    if r.starts_with(&at) || r == "blocked" || r == "exited" || r == "noworker" || r == "notparked" || r.starts_with("err") {
                        break;
                    }
                }
                ev(json!({"e": "wuntil", "w": k, "at": r, "steps": n}));
            }
            "readers" => {
                // k reader threads share the store: each reads the whole range and iterates a snapshot m times
                let k = step["k"].as_u64().unwrap_or(2);
                let m = step["m"].as_u64().unwrap_or(3);
                if let Some(rl) = self.rl.as_ref() {
                    std::thread::scope(|sc| {
                        for t in 0..k {
                            std::thread::Builder::new()
                                .name(format!("reader-{}", t + 1))
                                .spawn_scoped(sc, move || {
                                    for _ in 0..m {
                                        let r = read_range_of(rl, 0, u64::MAX);
                                        ev(json!({"e": "rd", "from": 0, "to": enc_u64(u64::MAX), "res": r.0, "es": r.1, "t": shim::label()}));
                                        let lo = (t + 1) as u64;
                                        let r = read_range_of(rl, lo, lo + 2);
                                        ev(json!({"e": "rd", "from": enc_u64(lo), "to": enc_u64(lo + 2), "res": r.0, "es": r.1, "t": shim::label()}));
                                    }
                                })
                                .unwrap();
                        }
                    });
                }
            }
            "wfree" => {
                // release worker n for good and wait until it has quit (or 2 s)
                let k = step["n"].as_u64().unwrap_or(1) as usize;
                let mut res = "noworker";
                if let Some(w) = self.workers.get(k.wrapping_sub(1)).cloned() {
                    gate::set_free(&w);
                    let t0 = Instant::now();
                    res = "timeout";
                    while t0.elapsed() < Duration::from_secs(10) {
                        if gate::wstate(&w).map(|s| s.exited).unwrap_or(false) {
                            res = "exited";
                            break;
                        }
                        std::thread::sleep(Duration::from_micros(100));
                    }
                }
                ev(json!({"e": "wfree", "w": k, "at": res}));
            }
            "wait_idle" => {
                let r = self.wait_idle();
                let o = self.obs();
                ev(json!({"e": "idle", "res": r, "obs": o}));
            }
            "wait_cb" => {
                let fids: Vec<u64> = self.flushes.clone();
                let mut out = vec![];
                // one budget for the whole step: a worker that died without dropping its callbacks
                // must not stall the run for a full timeout per flush
                let t0 = Instant::now();
                for f in fids {
                    let left = Duration::from_secs(20).saturating_sub(t0.elapsed());
                    let r = wait_cb(f, left.max(Duration::from_millis(1)));
                    out.push(json!([f, match r { Some(true) => "ok", Some(false) => "err", None => "timeout" }]));
                }
                ev(json!({"e": "waitcb", "res": out}));
            }
            "drain" => {
                if let Some(rl) = &self.rl {
                    rl.drain_cache_evictable();
                }
                let o = self.obs();
                ev(json!({"e": "drain", "obs": o}));
            }
            "fault" => {
                let mut fs = vec![];
                for f in step["plan"].as_array().cloned().unwrap_or_default() {
                    fs.push(shim::Fault {
                        call: f["call"].as_str().unwrap_or("").to_string(),
                        nth: f["nth"].as_u64().unwrap_or(1),
                        partial: f["partial"].as_i64().unwrap_or(-1),
                    });
                }
                shim::install_faults(fs);
                ev(json!({"e": "fault", "plan": step["plan"]}));
            }
            "crash" => {
                image::crash_step(self, step);
            }
            "crash_in_open" => {
                image::crash_in_open_step(self, step);
            }
            "lock_try" => {
                // a second contender on the same directory while (possibly) owned
                let kind = step["kind"].as_str().unwrap_or("open").to_string();
                // the owner's own worker must not be writing while the files are compared
                if self.rl.is_some() {
                    self.wait_idle();
                }
                let before = image::dir_digest(&self.dir);
                let n_before = gate::worker_count();
                let config = Arc::new(self.cfg.config(&self.dir));
                let res = if kind == "dump" {
                    match catch_unwind(AssertUnwindSafe(|| raft_log::Dump::<VT>::new(config))) {
                        Ok(Ok(d)) => {
                            drop(d);
                            "ok".to_string()
                        }
                        Ok(Err(e)) => err_class(&e),
                        Err(p) => format!("panic:{}", panic_msg(p)),
                    }
                } else {
                    match catch_unwind(AssertUnwindSafe(|| RaftLog::<VT>::open(config))) {
                        Ok(Ok(rl)) => {
                            if let Some(w) = gate::wait_new_worker(n_before) {
                                gate::set_free(&w);
                            }
                            drop(rl);
                            "ok".to_string()
                        }
                        Ok(Err(e)) => err_class(&e),
                        Err(p) => format!("panic:{}", panic_msg(p)),
                    }
                };
                let after = image::dir_digest(&self.dir);
                ev(json!({"e": "locktry", "kind": kind, "res": res, "same": before == after,
                          "owned": self.rl.is_some()}));
            }
            "lk_open" => {
                let c = step["c"].as_u64().unwrap_or(1);
                let kind = step["kind"].as_str().unwrap_or("open").to_string();
                let proc_ = step["proc"].as_str().unwrap_or("thread").to_string();
                let before = image::dir_digest(&self.dir);
                let cfg = self.cfg.clone();
                let dir = self.dir.clone();
                let res: String;
                if proc_ == "child" {
                    let exe = std::env::current_exe().unwrap();
                    let mut ch = std::process::Command::new(exe)
                        .args(["lockchild", &dir, &kind])
                        .stdin(std::process::Stdio::piped())
                        .stdout(std::process::Stdio::piped())
                        .spawn()
                        .unwrap();
                    let mut line = String::new();
                    {
                        use std::io::BufRead;
                        let out = ch.stdout.as_mut().unwrap();
                        let mut br = std::io::BufReader::new(out);
                        let _ = br.read_line(&mut line);
                    }
                    res = line.trim().to_string();
                    if res == "ok" {
                        self.contenders.insert(c, Contender::Child(ch));
                    } else {
                        let _ = ch.wait();
                    }
                } else {
                    // a separate thread makes the attempt and hands the owner object back
                    let n_before = gate::worker_count();
                    let k2 = kind.clone();
                    let h = std::thread::Builder::new()
                        .name(format!("reader-9{}", c))
                        .spawn(move || -> Result<Contender, String> {
                            let config = Arc::new(cfg.config(&dir));
                            if k2 == "dump" {
                                match catch_unwind(AssertUnwindSafe(|| raft_log::Dump::<VT>::new(config))) {
                                    Ok(Ok(d)) => Ok(Contender::Dump(d)),
                                    Ok(Err(e)) => Err(err_class(&e)),
                                    Err(p) => Err(format!("panic:{}", panic_msg(p))),
                                }
                            } else {
                                match catch_unwind(AssertUnwindSafe(|| RaftLog::<VT>::open(config))) {
                                    Ok(Ok(rl)) => Ok(Contender::Store(rl)),
                                    Ok(Err(e)) => Err(err_class(&e)),
                                    Err(p) => Err(format!("panic:{}", panic_msg(p))),
                                }
                            }
                        })
                        .unwrap();
                    match h.join().unwrap() {
                        Ok(obj) => {
                            if matches!(obj, Contender::Store(_)) {
                                if let Some(w) = gate::wait_new_worker(n_before) {
                                    gate::set_free(&w);
                                }
                            }
                            self.contenders.insert(c, obj);
                            res = "ok".to_string();
                        }
                        Err(e) => res = e,
                    }
                }
                let same = res == "ok" || before == image::dir_digest(&self.dir);
                ev(json!({"e": "lk", "op": "open", "c": c, "kind": kind, "proc": proc_, "res": res, "same": same}));
            }
            "lk_race" => {
                // n threads race to open, hold and drop the directory; acquisition is logged after open
                // returned Ok, release is logged BEFORE the drop, so two owners overlapping in the log
                // overlapped in real time
                let n = step["threads"].as_u64().unwrap_or(4);
                let rounds = step["rounds"].as_u64().unwrap_or(20);
                let cfg = self.cfg.clone();
                let dir = self.dir.clone();
                std::thread::scope(|sc| {
                    for t in 0..n {
                        let cfg = cfg.clone();
                        let dir = dir.clone();
                        std::thread::Builder::new()
                            .name(format!("reader-8{}", t + 1))
                            .spawn_scoped(sc, move || {
                                let c = 100 + t;
                                let mut seed = 88172645463325252u64 ^ (t + 1);
                                for r in 0..rounds {
                                    seed ^= seed << 13;
                                    seed ^= seed >> 7;
                                    seed ^= seed << 17;
                                    let dump = (seed >> 5) % 3 == 0;
                                    let config = Arc::new(cfg.config(&dir));
                                    let n_before = gate::worker_count();
                                    let held: Option<Contender> = if dump {
                                        match catch_unwind(AssertUnwindSafe(|| raft_log::Dump::<VT>::new(config))) {
                                            Ok(Ok(d)) => Some(Contender::Dump(d)),
                                            _ => None,
                                        }
                                    } else {
                                        match catch_unwind(AssertUnwindSafe(|| RaftLog::<VT>::open(config))) {
                                            Ok(Ok(rl)) => Some(Contender::Store(rl)),
                                            _ => None,
                                        }
                                    };
                                    let kind = if dump { "dump" } else { "open" };
                                    match held {
                                        Some(obj) => {
                                            ev(json!({"e": "lk", "op": "open", "c": c, "kind": kind, "proc": "race", "res": "ok", "same": true, "race": true, "round": r}));
                                            if matches!(obj, Contender::Store(_)) {
                                                let _ = n_before;
                                            }
                                            if (seed >> 9) % 2 == 0 {
                                                std::thread::yield_now();
                                            }
                                            ev(json!({"e": "lk", "op": "drop", "c": c, "race": true}));
                                            drop(obj);
                                        }
                                        None => {
                                            ev(json!({"e": "lk", "op": "open", "c": c, "kind": kind, "proc": "race", "res": "err:WouldBlock:locked", "same": true, "race": true, "round": r}));
                                        }
                                    }
                                }
                            })
                            .unwrap();
                    }
                });
                // workers spawned by the racing stores are not gated
                for w in 0..gate::worker_count() {
                    let _ = w;
                }
            }
            "lk_child_race" => {
                // k child processes attempt to take the directory at the same time; each reports and holds
                let k = step["k"].as_u64().unwrap_or(3);
                let exe = std::env::current_exe().unwrap();
                let before = image::dir_digest(&self.dir);
                let mut chs = vec![];
                for i in 0..k {
                    let kind = if i % 2 == 0 { "open" } else { "dump" };
                    let ch = std::process::Command::new(&exe)
                        .args(["lockchild", &self.dir, kind])
                        .stdin(std::process::Stdio::piped())
                        .stdout(std::process::Stdio::piped())
                        .spawn()
                        .unwrap();
                    chs.push((kind, ch));
                }
                let mut oks = 0;
                let mut res = vec![];
                for (kind, ch) in chs.iter_mut() {
                    use std::io::BufRead;
                    let mut line = String::new();
                    let out = ch.stdout.as_mut().unwrap();
                    let _ = std::io::BufReader::new(out).read_line(&mut line);
                    let l = line.trim().to_string();
                    if l == "ok" {
                        oks += 1;
                    }
                    res.push(json!([kind, l]));
                }
                let owned = self.rl.is_some() || !self.contenders.is_empty();
                // release the winners
                for (_, ch) in chs.iter_mut() {
                    use std::io::Write;
                    if let Some(si) = ch.stdin.as_mut() {
                        let _ = si.write_all(b"drop\n");
                    }
                    let _ = ch.wait();
                }
                let same = oks > 0 || before == image::dir_digest(&self.dir);
                ev(json!({"e": "lkrace", "k": k, "oks": oks, "owned": owned, "same": same, "results": res}));
            }
            "lk_drop" => {
                let c = step["c"].as_u64().unwrap_or(1);
                ev(json!({"e": "lk", "op": "drop", "c": c}));
                match self.contenders.remove(&c) {
                    Some(Contender::Child(mut ch)) => {
                        use std::io::Write;
                        if let Some(si) = ch.stdin.as_mut() {
                            let _ = si.write_all(b"drop\n");
                        }
                        let _ = ch.wait();
                    }
                    Some(obj) => drop(obj),
                    None => {}
                }
            }
            "sleep_us" => {
                std::thread::sleep(Duration::from_micros(step["n"].as_u64().unwrap_or(100)));
            }
            _ => {
                ev(json!({"e": "unknown_step", "step": step}));
            }
        }
    }

    pub fn read_range(&mut self, from: u64, to: u64) -> (String, Value) {
        let Some(rl) = self.rl.as_ref() else {
            return ("noinst".into(), json!([]));
        };
        read_range_of(rl, from, to)
    }

    pub fn read_iter(&mut self) -> (String, Value, Value) {
        let Some(rl) = self.rl.as_ref() else {
            return ("noinst".into(), json!([]), json!({}));
        };
        let r = catch_unwind(AssertUnwindSafe(|| {
            let mut d = rl.dump_data();
            let st = state_json!(d.state());
            let mut out = vec![];
            for r in d.iter() {
                match r {
                    Ok((id, p)) => {
                        let (tok, len) = proj_payload(&p);
                        out.push(json!([enc_u64(id.0), enc_u64(id.1), tok, len]));
                    }
                    Err(e) => return (err_class(&e), json!(out), st),
                }
            }
            ("ok".to_string(), json!(out), st)
        }));
        match r {
            Ok(x) => x,
            Err(p) => (format!("panic:{}", panic_msg(p)), json!([]), json!({})),
        }
    }

    pub fn dump(&mut self) -> (String, Value) {
        let Some(rl) = self.rl.as_ref() else {
            return ("noinst".into(), json!([]));
        };
        let r = catch_unwind(AssertUnwindSafe(|| {
            let mut out = vec![];
            let res = rl.dump().write_with(|ck, i, res| {
                match res {
                    Ok((seg, rec)) => out.push(json!([enc_u64(ck.0), i, enc_u64(seg.offset().0), enc_u64(*seg.size()), rec_json(&rec)])),
                    Err(e) => out.push(json!([enc_u64(ck.0), i, -1, -1, {"k": err_class(&e)}])),
                }
                Ok(())
            });
            match res {
                Ok(()) => ("ok".to_string(), json!(out)),
                Err(e) => (err_class(&e), json!(out)),
            }
        }));
        match r {
            Ok(x) => x,
            Err(p) => (format!("panic:{}", panic_msg(p)), json!([])),
        }
    }

    /// End of run: release everything.
    pub fn finish(&mut self) {
        let cs: Vec<u64> = self.contenders.keys().copied().collect();
        for c in cs {
            match self.contenders.remove(&c) {
                Some(Contender::Child(mut ch)) => {
                    let _ = ch.kill();
                    let _ = ch.wait();
                }
                Some(obj) => drop(obj),
                None => {}
            }
        }
        for w in self.workers.clone() {
            gate::set_free(&w);
        }
        if let Some(rl) = self.rl.take() {
            let _ = catch_unwind(AssertUnwindSafe(move || drop(rl)));
        }
        self.wid = None;
    }
}

pub fn read_range_of(rl: &RaftLog<VT>, from: u64, to: u64) -> (String, Value) {
    let r = catch_unwind(AssertUnwindSafe(|| {
        let mut out = vec![];
        for r in rl.read(from, to) {
            match r {
                Ok((id, p)) => {
                    let (tok, len) = proj_payload(&p);
                    out.push(json!([enc_u64(id.0), enc_u64(id.1), tok, len]));
                }
                Err(e) => return (err_class(&e), json!(out)),
            }
        }
        ("ok".to_string(), json!(out))
    }));
    match r {
        Ok(x) => x,
        Err(p) => (format!("panic:{}", panic_msg(p)), json!([])),
    }
}
