//! libc symbol interposition: every file-system call the library makes on a
//! path below the watched root is serialised, numbered, attributed to a
//! thread, logged (with the bytes written) and can be failed or held on
//! demand.  Nothing here trusts the code under test: the calls are observed
//! below std.

use std::cell::RefCell;
use std::collections::HashMap;
use std::collections::HashSet;
use std::ffi::CStr;
use std::sync::Mutex;
use std::sync::MutexGuard;
use std::sync::OnceLock;
use std::sync::atomic::AtomicBool;
use std::sync::atomic::AtomicU64;
use std::sync::atomic::Ordering;

use libc::c_char;
use libc::c_int;
use libc::c_void;
use libc::mode_t;
use libc::off_t;
use libc::size_t;
use libc::ssize_t;
use serde_json::Value;
use serde_json::json;

use crate::gate;

pub const WORKER_THREAD_NAME: &str = "raft_log_wal_flush_worker";

/// One observed file-system call.
#[derive(Clone, Debug)]
pub struct FsRec {
    pub seq: u64,
    pub tid: String,
    pub call: &'static str,
    pub dir: String,
    pub file: String,
    pub off: u64,
    pub len: u64,
    pub data: Vec<u8>,
    pub res: i64,
    pub flags: i32,
}

#[derive(Clone, Debug)]
pub struct Fault {
    /// "write" | "fdatasync" | "fsync" | "unlink" | "creat"
    pub call: String,
    /// fail the n-th (1-based) call of this kind counted from plan installation
    pub nth: u64,
    /// for write: number of bytes actually written before failing (torn write); -1 = none
    pub partial: i64,
}

#[derive(Default)]
pub struct Shim {
    pub root: String,
    pub fds: HashMap<i32, (String, String)>,
    pub seq: u64,
    pub events: Vec<Value>,
    pub fslog: Vec<FsRec>,
    pub faults: Vec<Fault>,
    pub counts: HashMap<String, u64>,
    pub ignore_tids: HashSet<String>,
    pub next_worker: u64,
    pub next_other: u64,
    pub log_reads: bool,
    /// drop every trace event (used while post-hoc probes run)
    pub quiet: bool,
    /// calls seen on watched files through an entry point the shadow does not model
    pub unmodelled: Vec<String>,
}

static ACTIVE: AtomicBool = AtomicBool::new(false);
thread_local! {
    static SUSPEND: std::cell::Cell<bool> = const { std::cell::Cell::new(false) };
}

/// Run `f` with observation switched off on this thread (harness-internal file work).
pub fn unobserved<R>(f: impl FnOnce() -> R) -> R {
    SUSPEND.with(|s| s.set(true));
    let r = f();
    SUSPEND.with(|s| s.set(false));
    r
}

fn active() -> bool {
    ACTIVE.load(Ordering::Relaxed) && !SUSPEND.with(|s| s.get())
}
static SHIM: OnceLock<Mutex<Shim>> = OnceLock::new();
pub static FS_CALLS: AtomicU64 = AtomicU64::new(0);

pub fn shim() -> MutexGuard<'static, Shim> {
    SHIM.get_or_init(|| Mutex::new(Shim::default())).lock().unwrap_or_else(|e| e.into_inner())
}

pub fn activate(root: &str) {
    let mut s = shim();
    s.root = root.to_string();
    drop(s);
    ACTIVE.store(true, Ordering::SeqCst);
}

thread_local! {
    static LABEL: RefCell<Option<String>> = const { RefCell::new(None) };
}

/// Label of the calling thread: "c" (driver), "w<k>" (flush worker), "r<k>" (other).
pub fn label() -> String {
    LABEL.with(|l| {
        if let Some(s) = l.borrow().as_ref() {
            return s.clone();
        }
        let cur = std::thread::current();
        let name = cur.name().unwrap_or("").to_string();
        let lab = if name == "main" || name == "driver" {
            "c".to_string()
        } else if name == WORKER_THREAD_NAME {
            let mut s = shim();
            s.next_worker += 1;
            format!("w{}", s.next_worker)
        } else if let Some(rest) = name.strip_prefix("reader-") {
            format!("r{}", rest)
        } else {
            let mut s = shim();
            s.next_other += 1;
            format!("x{}", s.next_other)
        };
        *l.borrow_mut() = Some(lab.clone());
        lab
    })
}

/// Append a trace event (gets the next global sequence number).
pub fn log_event(mut v: Value) {
    let mut s = shim();
    if s.quiet {
        return;
    }
    if let Some(t) = v.get("t").and_then(|t| t.as_str()) {
        if s.ignore_tids.contains(t) {
            return;
        }
    }
    s.seq += 1;
    let seq = s.seq;
    v["seq"] = json!(seq);
    s.events.push(v);
}

pub fn log_event_locked(s: &mut Shim, mut v: Value) {
    s.seq += 1;
    v["seq"] = json!(s.seq);
    s.events.push(v);
}

pub fn install_faults(f: Vec<Fault>) {
    let mut s = shim();
    s.faults = f;
    s.counts.clear();
}

/// Split an absolute path below the root into (run dir, file name).
fn split(root: &str, path: &str) -> Option<(String, String)> {
    if root.is_empty() || !path.starts_with(root) {
        return None;
    }
    let rest = &path[root.len()..];
    let rest = rest.trim_start_matches('/');
    match rest.rfind('/') {
        Some(i) => Some((rest[..i].to_string(), rest[i + 1..].to_string())),
        None => Some((String::new(), rest.to_string())),
    }
}

fn set_errno(e: c_int) {
    unsafe {
        *libc::__errno_location() = e;
    }
}

fn errno() -> c_int {
    unsafe { *libc::__errno_location() }
}

/// Parse a chunk file name "r-dd_ddd_..._ddd.wal" into its offset; LOCK -> -1; other -> -2
pub fn chunk_of(file: &str) -> i64 {
    if file == "LOCK" {
        return -1;
    }
    if let Some(x) = file.strip_prefix("r-").and_then(|x| x.strip_suffix(".wal")) {
        let d: String = x.chars().filter(|c| c.is_ascii_digit()).collect();
        if let Ok(v) = d.parse::<u64>() {
            return crate::util::enc_u64(v);
        }
    }
    -2
}

fn should_fail(s: &mut Shim, call: &str) -> Option<Fault> {
    let c = s.counts.entry(call.to_string()).or_insert(0);
    *c += 1;
    let n = *c;
    s.faults.iter().find(|f| f.call == call && f.nth == n).cloned()
}

#[allow(clippy::too_many_arguments)]
fn record(
    s: &mut Shim,
    tid: &str,
    call: &'static str,
    dir: &str,
    file: &str,
    off: u64,
    len: u64,
    data: Vec<u8>,
    res: i64,
    flags: i32,
) {
    if s.ignore_tids.contains(tid) {
        return;
    }
    FS_CALLS.fetch_add(1, Ordering::Relaxed);
    s.seq += 1;
    let seq = s.seq;
    if !s.quiet {
        s.events.push(json!({
            "e": "fs", "seq": seq, "t": tid, "call": call, "ck": chunk_of(file), "file": file,
            "off": off, "len": len, "res": res, "fl": flags,
        }));
    }
    s.fslog.push(FsRec {
        seq,
        tid: tid.to_string(),
        call,
        dir: dir.to_string(),
        file: file.to_string(),
        off,
        len,
        data,
        res,
        flags,
    });
}

fn tracked(fd: c_int) -> Option<(String, String)> {
    if !active() {
        return None;
    }
    shim().fds.get(&fd).cloned()
}

unsafe fn do_open(path: *const c_char, flags: c_int, mode: mode_t) -> c_int {
    let r = unsafe { libc::syscall(libc::SYS_openat, libc::AT_FDCWD, path, flags, mode as libc::c_uint) } as c_int;
    r
}

unsafe fn open_common(path: *const c_char, flags: c_int, mode: mode_t) -> c_int {
    if !active() || path.is_null() {
        return unsafe { do_open(path, flags, mode) };
    }
    let p = unsafe { CStr::from_ptr(path) }.to_string_lossy().to_string();
    let root = shim().root.clone();
    let Some((dir, file)) = split(&root, &p) else {
        return unsafe { do_open(path, flags, mode) };
    };
    if file.is_empty() || (flags & libc::O_DIRECTORY) != 0 {
        return unsafe { do_open(path, flags, mode) };
    }
    let tid = label();
    let creat = (flags & libc::O_CREAT) != 0 && (flags & libc::O_EXCL) != 0;
    if creat {
        gate::fs_stop("creat", 0);
    }
    let mut s = shim();
    if creat {
        if let Some(_f) = should_fail(&mut s, "creat") {
            record(&mut s, &tid, "creat", &dir, &file, 0, 0, vec![], -(libc::EIO as i64), flags);
            drop(s);
            set_errno(libc::EIO);
            return -1;
        }
    }
    let r = unsafe { do_open(path, flags, mode) };
    let e = errno();
    let res = if r >= 0 { 0 } else { -(e as i64) };
    if r >= 0 {
        s.fds.insert(r, (dir.clone(), file.clone()));
    }
    let call = if creat {
        "creat"
    } else if (flags & libc::O_TRUNC) != 0 || (flags & libc::O_CREAT) != 0 {
        "opent"
    } else {
        "open"
    };
    record(&mut s, &tid, call, &dir, &file, 0, 0, vec![], res, flags);
    drop(s);
    set_errno(e);
    r
}

#[unsafe(no_mangle)]
pub unsafe extern "C" fn open64(path: *const c_char, flags: c_int, mode: mode_t) -> c_int {
    unsafe { open_common(path, flags, mode) }
}

#[unsafe(no_mangle)]
pub unsafe extern "C" fn open(path: *const c_char, flags: c_int, mode: mode_t) -> c_int {
    unsafe { open_common(path, flags, mode) }
}

#[unsafe(no_mangle)]
pub unsafe extern "C" fn close(fd: c_int) -> c_int {
    if ACTIVE.load(Ordering::Relaxed) {
        let mut s = shim();
        s.fds.remove(&fd);
    }
    unsafe { libc::syscall(libc::SYS_close, fd) as c_int }
}

#[unsafe(no_mangle)]
pub unsafe extern "C" fn write(fd: c_int, buf: *const c_void, n: size_t) -> ssize_t {
    let Some((dir, file)) = tracked(fd) else {
        return unsafe { libc::syscall(libc::SYS_write, fd, buf, n) as ssize_t };
    };
    let tid = label();
    gate::fs_stop("write", n as u64);
    let mut s = shim();
    let off = unsafe { libc::syscall(libc::SYS_lseek, fd, 0 as off_t, libc::SEEK_CUR) } as i64;
    let off = if off < 0 { 0 } else { off as u64 };
    if let Some(f) = should_fail(&mut s, "write") {
        let mut written = vec![];
        if f.partial > 0 {
            let k = (f.partial as usize).min(n);
            let r = unsafe { libc::syscall(libc::SYS_write, fd, buf, k) } as isize;
            if r > 0 {
                written = unsafe { std::slice::from_raw_parts(buf as *const u8, r as usize) }.to_vec();
            }
        }
        record(&mut s, &tid, "write", &dir, &file, off, n as u64, written, -(libc::EIO as i64), 0);
        drop(s);
        set_errno(libc::EIO);
        return -1;
    }
    let r = unsafe { libc::syscall(libc::SYS_write, fd, buf, n) } as ssize_t;
    let e = errno();
    let data = if r > 0 {
        unsafe { std::slice::from_raw_parts(buf as *const u8, r as usize) }.to_vec()
    } else {
        vec![]
    };
    let res = if r >= 0 { r as i64 } else { -(e as i64) };
    record(&mut s, &tid, "write", &dir, &file, off, n as u64, data, res, 0);
    drop(s);
    set_errno(e);
    r
}

#[unsafe(no_mangle)]
pub unsafe extern "C" fn pwrite64(fd: c_int, buf: *const c_void, n: size_t, off: off_t) -> ssize_t {
    let t = tracked(fd);
    let r = unsafe { libc::syscall(libc::SYS_pwrite64, fd, buf, n, off) } as ssize_t;
    if let Some((dir, file)) = t {
        let e = errno();
        let tid = label();
        let mut s = shim();
        let data = if r > 0 {
            unsafe { std::slice::from_raw_parts(buf as *const u8, r as usize) }.to_vec()
        } else {
            vec![]
        };
        let res = if r >= 0 { r as i64 } else { -(e as i64) };
        record(&mut s, &tid, "write", &dir, &file, off as u64, n as u64, data, res, 1);
        drop(s);
        set_errno(e);
    }
    r
}

#[unsafe(no_mangle)]
pub unsafe extern "C" fn writev(fd: c_int, iov: *const libc::iovec, cnt: c_int) -> ssize_t {
    if let Some((_d, file)) = tracked(fd) {
        shim().unmodelled.push(format!("writev {}", file));
    }
    unsafe { libc::syscall(libc::SYS_writev, fd, iov, cnt) as ssize_t }
}

#[unsafe(no_mangle)]
pub unsafe extern "C" fn pread64(fd: c_int, buf: *mut c_void, n: size_t, off: off_t) -> ssize_t {
    let t = tracked(fd);
    let r = unsafe { libc::syscall(libc::SYS_pread64, fd, buf, n, off) } as ssize_t;
    if let Some((dir, file)) = t {
        let e = errno();
        let mut s = shim();
        if s.log_reads {
            let tid = label();
            let res = if r >= 0 { r as i64 } else { -(e as i64) };
            record(&mut s, &tid, "pread", &dir, &file, off as u64, n as u64, vec![], res, 0);
        }
        drop(s);
        set_errno(e);
    }
    r
}

unsafe fn sync_common(fd: c_int, call: &'static str, nr: libc::c_long) -> c_int {
    let Some((dir, file)) = tracked(fd) else {
        return unsafe { libc::syscall(nr, fd) as c_int };
    };
    let tid = label();
    gate::fs_stop(call, 0);
    let mut s = shim();
    if should_fail(&mut s, call).is_some() {
        record(&mut s, &tid, call, &dir, &file, 0, 0, vec![], -(libc::EIO as i64), 0);
        drop(s);
        set_errno(libc::EIO);
        return -1;
    }
    let r = unsafe { libc::syscall(nr, fd) } as c_int;
    let e = errno();
    let res = if r >= 0 { 0 } else { -(e as i64) };
    record(&mut s, &tid, call, &dir, &file, 0, 0, vec![], res, 0);
    drop(s);
    set_errno(e);
    r
}

#[unsafe(no_mangle)]
pub unsafe extern "C" fn fdatasync(fd: c_int) -> c_int {
    unsafe { sync_common(fd, "fdatasync", libc::SYS_fdatasync) }
}

#[unsafe(no_mangle)]
pub unsafe extern "C" fn fsync(fd: c_int) -> c_int {
    unsafe { sync_common(fd, "fsync", libc::SYS_fsync) }
}

unsafe fn truncate_common(fd: c_int, len: off_t) -> c_int {
    let t = tracked(fd);
    if t.is_some() {
        gate::fs_stop("ftruncate", len as u64);
    }
    let r = unsafe { libc::syscall(libc::SYS_ftruncate, fd, len) } as c_int;
    if let Some((dir, file)) = t {
        let e = errno();
        let tid = label();
        let mut s = shim();
        let res = if r >= 0 { 0 } else { -(e as i64) };
        record(&mut s, &tid, "ftruncate", &dir, &file, len as u64, 0, vec![], res, 0);
        drop(s);
        set_errno(e);
    }
    r
}

#[unsafe(no_mangle)]
pub unsafe extern "C" fn ftruncate64(fd: c_int, len: off_t) -> c_int {
    unsafe { truncate_common(fd, len) }
}

#[unsafe(no_mangle)]
pub unsafe extern "C" fn ftruncate(fd: c_int, len: off_t) -> c_int {
    unsafe { truncate_common(fd, len) }
}

#[unsafe(no_mangle)]
pub unsafe extern "C" fn unlink(path: *const c_char) -> c_int {
    let fwd = || unsafe { libc::syscall(libc::SYS_unlinkat, libc::AT_FDCWD, path, 0) as c_int };
    if !active() || path.is_null() {
        return fwd();
    }
    let p = unsafe { CStr::from_ptr(path) }.to_string_lossy().to_string();
    let root = shim().root.clone();
    let Some((dir, file)) = split(&root, &p) else {
        return fwd();
    };
    let tid = label();
    gate::fs_stop("unlink", 0);
    let mut s = shim();
    if should_fail(&mut s, "unlink").is_some() {
        record(&mut s, &tid, "unlink", &dir, &file, 0, 0, vec![], -(libc::EIO as i64), 0);
        drop(s);
        set_errno(libc::EIO);
        return -1;
    }
    let r = fwd();
    let e = errno();
    let res = if r >= 0 { 0 } else { -(e as i64) };
    record(&mut s, &tid, "unlink", &dir, &file, 0, 0, vec![], res, 0);
    drop(s);
    set_errno(e);
    r
}

#[unsafe(no_mangle)]
pub unsafe extern "C" fn rename(old: *const c_char, new: *const c_char) -> c_int {
    if active() && !old.is_null() {
        let p = unsafe { CStr::from_ptr(old) }.to_string_lossy().to_string();
        let root = shim().root.clone();
        if let Some((_d, f)) = split(&root, &p) {
            shim().unmodelled.push(format!("rename {}", f));
        }
    }
    unsafe { libc::syscall(libc::SYS_renameat, libc::AT_FDCWD, old, libc::AT_FDCWD, new) as c_int }
}

#[unsafe(no_mangle)]
pub unsafe extern "C" fn flock(fd: c_int, op: c_int) -> c_int {
    let t = tracked(fd);
    let r = unsafe { libc::syscall(libc::SYS_flock, fd, op) } as c_int;
    if let Some((dir, file)) = t {
        let e = errno();
        let tid = label();
        let mut s = shim();
        let res = if r >= 0 { 0 } else { -(e as i64) };
        let call = if (op & libc::LOCK_UN) != 0 { "funlock" } else { "flock" };
        record(&mut s, &tid, call, &dir, &file, 0, 0, vec![], res, op);
        drop(s);
        set_errno(e);
    }
    r
}

/// Drain the trace events and FS log accumulated so far.
pub fn take_logs() -> (Vec<Value>, Vec<FsRec>) {
    let mut s = shim();
    let ev = std::mem::take(&mut s.events);
    let fs = std::mem::take(&mut s.fslog);
    (ev, fs)
}
