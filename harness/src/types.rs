//! The `Types` instance the harness drives the store with, and the flush
//! callback that logs its own invocation.

use std::collections::HashMap;
use std::io;
use std::sync::Condvar;
use std::sync::Mutex;
use std::sync::OnceLock;
use std::time::Duration;
use std::time::Instant;

use raft_log::Callback;
use raft_log::Types;
use serde_json::json;

use crate::gate;
use crate::shim;

#[derive(Debug, Clone, PartialEq, Eq, Default)]
pub struct VT;

impl Types for VT {
    type LogId = (u64, u64);
    type LogPayload = String;
    type Vote = (u64, u64);
    type Callback = Cb;
    type UserData = String;

    fn log_index(log_id: &Self::LogId) -> u64 {
        log_id.1
    }

    fn payload_size(payload: &Self::LogPayload) -> u64 {
        payload.len() as u64
    }
}

pub struct CbTable {
    pub m: Mutex<HashMap<u64, bool>>,
    pub cv: Condvar,
}

static CBS: OnceLock<CbTable> = OnceLock::new();

pub fn cbs() -> &'static CbTable {
    CBS.get_or_init(|| CbTable {
        m: Mutex::new(HashMap::new()),
        cv: Condvar::new(),
    })
}

/// Wait until callback `fid` has fired or was dropped; returns Some(ok) or None on timeout.
pub fn wait_cb(fid: u64, timeout: Duration) -> Option<bool> {
    let t = cbs();
    let mut m = t.m.lock().unwrap();
    let deadline = Instant::now() + timeout;
    loop {
        if let Some(v) = m.get(&fid) {
            return Some(*v);
        }
        let now = Instant::now();
        if now >= deadline {
            return None;
        }
        let (m2, _t) = t.cv.wait_timeout(m, deadline - now).unwrap();
        m = m2;
    }
}

pub fn cb_fired(fid: u64) -> Option<bool> {
    cbs().m.lock().unwrap().get(&fid).copied()
}

/// Flush callback: logs `cb` when invoked and `cbdrop` when dropped without being invoked.
pub struct Cb {
    pub fid: u64,
    pub sent: bool,
}

impl Cb {
    pub fn new(fid: u64) -> Self {
        Cb { fid, sent: false }
    }
}

impl Callback for Cb {
    fn send(mut self, res: Result<(), io::Error>) {
        gate::stop("cb", self.fid, false);
        self.sent = true;
        let ok = res.is_ok();
        shim::log_event(json!({"e": "cb", "fid": self.fid, "ok": ok, "t": shim::label()}));
        let t = cbs();
        t.m.lock().unwrap().insert(self.fid, ok);
        t.cv.notify_all();
    }
}

impl Drop for Cb {
    fn drop(&mut self) {
        if !self.sent {
            shim::log_event(json!({"e": "cbdrop", "fid": self.fid, "t": shim::label()}));
            let t = cbs();
            t.m.lock().unwrap().entry(self.fid).or_insert(false);
            t.cv.notify_all();
        }
    }
}
