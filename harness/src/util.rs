//! Value projection between the real domain (u64, strings) and the trace domain
//! (32-bit integers, tokens).  u64 values near u64::MAX travel as values near 10^9.

use serde_json::Value;
use serde_json::json;

pub const BIG: i64 = 1_000_000_000;

pub fn enc_u64(v: u64) -> i64 {
    if v >= (1u64 << 62) {
        let d = u64::MAX - v;
        if d < 1000 { BIG - d as i64 } else { BIG - 1000 }
    } else if v >= (BIG as u64 - 2000) {
        BIG - 2000
    } else {
        v as i64
    }
}

pub fn dec_u64(v: &Value) -> u64 {
    match v {
        Value::Number(n) => {
            let x = n.as_i64().unwrap_or(0);
            if x > BIG - 1000 {
                u64::MAX - (BIG - x) as u64
            } else if x < 0 {
                0
            } else {
                x as u64
            }
        }
        Value::String(s) if s == "MAX" => u64::MAX,
        _ => 0,
    }
}

pub fn enc_id(id: Option<&(u64, u64)>) -> Value {
    match id {
        Some((t, i)) => json!([enc_u64(*t), enc_u64(*i)]),
        None => json!([0, 0]),
    }
}

pub fn dec_id(v: &Value) -> (u64, u64) {
    (dec_u64(&v[0]), dec_u64(&v[1]))
}

pub fn dec_opt_id(v: &Value) -> Option<(u64, u64)> {
    let id = dec_id(v);
    if id == (0, 0) { None } else { Some(id) }
}

/// payload = token followed by '.' padding up to `len` bytes
pub fn make_payload(tok: &str, len: usize) -> String {
    let mut s = tok.to_string();
    while s.len() < len {
        s.push('.');
    }
    s
}

/// lossless projection of any payload string to (token, length)
pub fn proj_payload(p: &str) -> (String, usize) {
    (p.trim_end_matches('.').to_string(), p.len())
}

pub fn enc_user(u: Option<&String>) -> Value {
    match u {
        Some(s) => json!(s),
        None => json!("~"),
    }
}

pub fn dec_user(v: &Value) -> Option<String> {
    match v.as_str() {
        Some("~") | None => None,
        Some(s) => Some(s.to_string()),
    }
}

pub fn err_class(e: &std::io::Error) -> String {
    let msg = e.to_string();
    let cls = if msg.contains("Gap between chunks") {
        "gap"
    } else if msg.contains("holds no complete record") {
        "empty_chunk"
    } else if msg.contains("already locked") {
        "locked"
    } else if msg.contains("Vote cannot be reversed") {
        "vote_rev"
    } else if msg.contains("non-consecutive") || msg.contains("NonConsecutive") || msg.contains("not consecutive") {
        "nonconsec"
    } else if msg.contains("cannot be reversed") || msg.contains("Log id") && msg.contains("revers") {
        "logid_rev"
    } else if msg.contains("not found") || msg.contains("Not found") {
        "notfound"
    } else if msg.contains("closed channel") || msg.contains("Failed to send") {
        "chan_closed"
    } else if msg.contains("crc32") || msg.contains("checksum") || msg.contains("Checksum") {
        "checksum"
    } else {
        "other"
    };
    format!("err:{:?}:{}", e.kind(), cls)
}
