"""Script generators for the free-running / randomized direction (T).

These only *choose inputs*; they judge nothing.  A tiny model of the log (last, purged,
indexes present) is kept so that mostly Raft-legal arguments are chosen; illegal ones are
added on purpose where a property is about refusals (C06) or boundary arguments (C16).
"""
import random

MAXI = 1000000000  # u64::MAX in the trace domain (see harness util.rs)


class Model:
    def __init__(self):
        self.vote = (0, 0)
        self.last = (0, 0)
        self.committed = (0, 0)
        self.purged = (0, 0)
        self.log = []  # list of (t, i)
        self.term = 1

    def next_idx(self, lid):
        return 0 if lid == (0, 0) else lid[1] + 1

    def has(self, i):
        return any(e[1] == i for e in self.log)

    def id_at(self, i):
        for e in self.log:
            if e[1] == i:
                return e
        return None


def cfg_choices(rng, small_cache=False, rb=False):
    mr = rng.choice([None, None, 1, 2, 3, 4, 5, 8])
    ms = rng.choice([None, None, None, 60, 100, 150, 300])
    c = {}
    if mr is not None:
        c["mr"] = mr
    if ms is not None:
        c["ms"] = ms
    if small_cache:
        ci = rng.choice([None, 0, 1, 2, 3])
        cc = rng.choice([None, None, 0, 1, 5, 20])
        if ci is not None:
            c["ci"] = ci
        if cc is not None:
            c["cc"] = cc
    if rb:
        r = rng.choice([None, 1, 7, 64])
        if r is not None:
            c["rb"] = r
    return c


def rand_payload(rng, k, big=False):
    tok = "p%d" % k
    if big and rng.random() < 0.1:
        ln = rng.choice([200, 1024, 5000])
    else:
        ln = rng.choice([0, len(tok), len(tok), len(tok) + 1, len(tok) + 3, 12])
    if ln < len(tok) and ln != 0:
        ln = len(tok)
    if ln == 0:
        return ["", 0]
    return [tok, ln]


def legal_op(rng, m, k, weights=None, big=False):
    """Return (step, apply) for one Raft-legal write."""
    ops = ["append"] * 6 + ["vote"] * 2 + ["commit"] * 2 + ["truncate"] * 2 + ["purge"] * 2 + ["userdata"]
    if weights:
        ops = weights
    for _ in range(20):
        op = rng.choice(ops)
        if op == "vote":
            if rng.random() < 0.5:
                m.term += rng.choice([0, 1])
            v = (max(m.vote[0], m.term), rng.choice([1, 2, 3]))
            if v < m.vote:
                continue
            m.vote = v
            return {"a": "vote", "v": list(v)}
        if op == "append":
            n = rng.choice([1, 1, 1, 2, 3])
            es = []
            for _j in range(n):
                if m.last == (0, 0):
                    idx = rng.choice([0, 0, 1, 3, 7])
                else:
                    idx = m.last[1] + 1
                t = max(m.term, m.last[0])
                if (t, idx) <= m.last:
                    t = m.last[0] + 1
                    m.term = t
                p = rand_payload(rng, k * 10 + _j, big)
                es.append([t, idx, p[0], p[1]])
                m.log.append((t, idx))
                m.last = (t, idx)
            return {"a": "append", "es": es}
        if op == "commit":
            cands = [e for e in m.log if e >= m.committed] + ([m.last] if m.last >= m.committed and m.last != (0, 0) else [])
            if not cands:
                continue
            c = rng.choice(cands)
            m.committed = c
            return {"a": "commit", "id": list(c)}
        if op == "truncate":
            lo = m.next_idx(m.purged)
            cands = [lo] + [e[1] + 1 for e in m.log]
            i = rng.choice(cands)
            if i == lo:
                lid = m.purged
            else:
                lid = m.id_at(i - 1)
            m.log = [e for e in m.log if e[1] < i]
            if lid < m.last:
                m.last = lid
            # a later append must carry a higher term or index; lower terms than the removed suffix are fine,
            # and so is a new leader's higher term (the usual reason for a truncation)
            r = rng.random()
            if r < 0.4 and m.last != (0, 0):
                m.term = m.last[0]
            elif r < 0.8:
                m.term = max(m.term, m.last[0]) + 1
            return {"a": "truncate", "i": i}
        if op == "purge":
            r = rng.random()
            if m.log and r < 0.7:
                c = rng.choice(m.log[: max(1, len(m.log) - 1)])
            elif r < 0.85 and m.purged != (0, 0):
                c = m.purged  # no-op
            else:
                # beyond last
                if m.last == (0, 0):
                    c = (m.term, rng.choice([0, 2]))
                else:
                    c = (max(m.term, m.last[0]), m.last[1] + rng.choice([1, 2]))
            if c[1] < m.next_idx(m.purged):
                return {"a": "purge", "id": list(c)}
            m.log = [e for e in m.log if e[1] > c[1]]
            m.purged = max(m.purged, c)
            m.last = max(m.last, c)
            return {"a": "purge", "id": list(c)}
        if op == "userdata":
            u = rng.choice(["~", "u1", "user-data-2", ""])
            if u == "":
                u = "u0"
            return {"a": "userdata", "u": u}
    return {"a": "vote", "v": list(m.vote if m.vote != (0, 0) else (1, 1))}


def illegal_op(rng, m):
    """An argument the reference refuses (C06)."""
    for _ in range(20):
        k = rng.choice(["vote", "append_rev", "append_gap", "append_dup", "append_stale", "append_stale", "commit", "truncate"])
        if k == "append_stale" and m.last != (0, 0) and m.last[0] > 1:
            # a stale leader: the next index, but a term below the last one
            return {"a": "append", "es": [[m.last[0] - 1, m.last[1] + 1, "S", 1]]}
        if k == "vote" and m.vote > (1, 0):
            return {"a": "vote", "v": [m.vote[0] - 1, m.vote[1]]}
        if k == "append_rev" and m.last != (0, 0):
            return {"a": "append", "es": [[m.last[0], m.last[1], "X", 1]]}
        if k == "append_dup" and m.log:
            e = rng.choice(m.log)
            return {"a": "append", "es": [[e[0], e[1], "XX", 2]]}
        if k == "append_gap" and m.last != (0, 0):
            return {"a": "append", "es": [[m.last[0] + 1, m.last[1] + 2, "G", 1]]}
        if k == "commit" and m.committed > (1, 0):
            return {"a": "commit", "id": [m.committed[0], m.committed[1] - 1] if m.committed[1] > 0 else [m.committed[0] - 1, 5]}
        if k == "truncate":
            hi = (m.last[1] if m.last != (0, 0) else 0) + rng.choice([2, 3, 10])
            return {"a": "truncate", "i": hi}
    return {"a": "truncate", "i": 999}


def random_history(rng, n_calls, cfg, opts):
    """One free-running run: legal writes, flushes, reads, reopens; ends quiescent."""
    m = Model()
    steps = [{"a": "open", "cfg": cfg}]
    pending = False
    for k in range(n_calls):
        r = rng.random()
        if opts.get("rejects") and r < opts["rejects"]:
            steps.append(illegal_op(rng, m))
            continue
        steps.append(legal_op(rng, m, k, big=opts.get("big", False)))
        pending = True
        r = rng.random()
        if r < opts.get("flush", 0.3):
            steps.append({"a": "flush"})
            if rng.random() < opts.get("sync_wait", 0.5):
                steps += [{"a": "wait_cb"}, {"a": "wait_idle"}]
                pending = False
                if opts.get("dump") and rng.random() < opts["dump"]:
                    steps.append({"a": "dump"})
                if opts.get("drain") and rng.random() < opts["drain"]:
                    steps.append({"a": "drain"})
                if opts.get("reopen") and rng.random() < opts["reopen"]:
                    c2 = cfg if rng.random() < 0.5 else cfg_choices(rng, opts.get("small_cache", False), opts.get("rb", False))
                    steps.append({"a": "reopen", "cfg": c2})
        if opts.get("reads") and rng.random() < opts["reads"]:
            lo = rng.choice([0, 0, 1, 2, 3, 5])
            hi = rng.choice([lo, lo + 1, lo + 3, 100, MAXI])
            steps.append({"a": "read", "from": lo, "to": hi})
        if opts.get("iter") and rng.random() < opts["iter"]:
            steps.append({"a": "iter"})
    steps += [{"a": "flush"}, {"a": "wait_cb"}, {"a": "wait_idle"}]
    if opts.get("dump"):
        steps.append({"a": "dump"})
    if opts.get("final_reopen", True):
        steps += [{"a": "reopen", "cfg": cfg_choices(rng, opts.get("small_cache", False), opts.get("rb", False))},
                  {"a": "read", "from": 0, "to": MAXI}]
    return steps


def boundary_args(m):
    """C16: boundary classes around 0 / purged / last / u64::MAX for every operation."""
    pi = m.purged[1] if m.purged != (0, 0) else 0
    li = m.last[1] if m.last != (0, 0) else 0
    idxs = sorted(set([0, max(pi - 1, 0), pi, pi + 1, max(li - 1, 0), li, li + 1, li + 2, MAXI - 1, MAXI]))
    terms = sorted(set([0, 1, m.last[0], m.last[0] + 1, MAXI]))
    out = []
    for i in idxs:
        out.append({"a": "truncate", "i": i})
        for j in [0, i, MAXI]:
            out.append({"a": "read", "from": i, "to": j})
    for t in terms:
        for i in idxs:
            if (t, i) == (0, 0):
                continue
            out.append({"a": "purge", "id": [t, i]})
            out.append({"a": "commit", "id": [t, i]})
            out.append({"a": "append", "es": [[t, i, "z", 1]]})
            out.append({"a": "vote", "v": [t, i]})
    out.append({"a": "append", "es": []})
    out.append({"a": "read", "from": 5, "to": 2})
    return out


def flush_history(rng, n_calls, cfg, faults=0):
    """C04: many flushes without waiting (batching), rotations in between, optional injected faults."""
    m = Model()
    steps = [{"a": "open", "cfg": cfg}]
    fault_at = sorted(rng.sample(range(2, max(3, n_calls)), min(faults, max(0, n_calls - 3)))) if faults else []
    for k in range(n_calls):
        if k in fault_at:
            call = rng.choice(["fdatasync", "fdatasync", "write"])
            plan = [{"call": call, "nth": rng.choice([1, 1, 2, 3])}]
            if call == "write" and rng.random() < 0.7:
                plan[0]["partial"] = rng.choice([1, 5, 17, 30])   # a torn write: some bytes land, then EIO
            if rng.random() < 0.3:
                plan.append({"call": "fdatasync", "nth": plan[0]["nth"] + 1})
            steps.append({"a": "fault", "plan": plan})
        steps.append(legal_op(rng, m, k, weights=["append"] * 5 + ["vote", "commit", "purge", "truncate"]))
        r = rng.random()
        if r < 0.5:
            steps.append({"a": "flush"})
            if rng.random() < 0.3:
                steps.append({"a": "flush"})
            if rng.random() < 0.25:
                steps += [{"a": "wait_cb"}, {"a": "wait_idle"}]
        elif r < 0.6:
            steps.append({"a": "sleep_us", "n": rng.choice([50, 200, 1000])})
    steps += [{"a": "flush"}, {"a": "wait_cb"}, {"a": "wait_idle"}]
    return steps


def purge_history(rng, n_calls, cfg, faults=0):
    """C08: append / purge / flush cycles over small chunks so that chunk files become obsolete and are removed."""
    m = Model()
    steps = [{"a": "open", "cfg": cfg}]
    fault_at = sorted(rng.sample(range(2, max(3, n_calls)), min(faults, max(0, n_calls - 3)))) if faults else []
    for k in range(n_calls):
        if k in fault_at:
            steps.append({"a": "fault", "plan": [{"call": rng.choice(["fdatasync", "fdatasync", "unlink"]), "nth": rng.choice([1, 2])}]})
        steps.append(legal_op(rng, m, k, weights=["append"] * 5 + ["purge"] * 3 + ["truncate", "vote", "commit"]))
        r = rng.random()
        if r < 0.45:
            steps.append({"a": "flush"})
            if rng.random() < 0.6:
                steps += [{"a": "wait_cb"}, {"a": "wait_idle"}]
                if rng.random() < 0.3:
                    steps.append({"a": "read", "from": 0, "to": MAXI})
    steps += [{"a": "flush"}, {"a": "wait_cb"}, {"a": "wait_idle"}, {"a": "read", "from": 0, "to": MAXI}]
    if not faults:
        steps += [{"a": "reopen", "cfg": cfg}, {"a": "read", "from": 0, "to": MAXI}]
    return steps


def cache_history(rng, n_calls, cfg, readers=False):
    """C07/C15: small cache limits, reads and snapshot iteration while the worker is at arbitrary points."""
    m = Model()
    steps = [{"a": "open", "cfg": cfg}]
    for k in range(n_calls):
        steps.append(legal_op(rng, m, k, weights=["append"] * 6 + ["truncate"] * 2 + ["purge"] * 2 + ["vote", "commit"]))
        r = rng.random()
        if r < 0.35:
            steps.append({"a": "flush"})
        if rng.random() < 0.5:
            steps.append({"a": "obs"})
        if rng.random() < 0.2:
            steps.append({"a": "iter"})
        if readers and rng.random() < 0.15:
            steps.append({"a": "readers", "k": rng.choice([2, 3, 4]), "m": 2})
        if rng.random() < 0.15:
            steps += [{"a": "flush"}, {"a": "wait_cb"}, {"a": "wait_idle"}, {"a": "drain"}]
            if rng.random() < 0.3:
                # (read_buffer_size matters on the scan at open: segments of the records of closed chunks)
                steps.append({"a": "reopen", "cfg": cfg_choices(rng, True, True)})
    steps += [{"a": "flush"}, {"a": "wait_cb"}, {"a": "wait_idle"}, {"a": "drain"}, {"a": "obs"}]
    return steps


def drop_scenario(rng, variant):
    """C14 (gated): the acknowledgement of the last flush has been received, the old worker is held at
    `hold` with its remaining steps pending, the store is dropped and opened again, the new instance works,
    then the old worker (if it still exists) is released."""
    mr = rng.choice([2, 3, 2])
    cfg = {"mr": mr}
    m = Model()
    steps = [{"a": "open", "cfg": cfg}]
    n = rng.choice([3, 4, 6])
    for k in range(n):
        steps.append(legal_op(rng, m, k, weights=["append"]))
    steps += [{"a": "flush"}, {"a": "wrun", "n": 1}]
    # purge something that makes at least one chunk obsolete
    if m.log:
        c = m.log[min(len(m.log) - 1, rng.choice([1, 2, len(m.log) - 1]))]
        steps.append({"a": "purge", "id": list(c)})
        m.log = [e for e in m.log if e[1] > c[1]]
        m.purged = c
    steps.append({"a": "flush"})
    hold = variant
    steps.append({"a": "wuntil", "n": 1, "at": "cb"})
    steps.append({"a": "w", "n": 1})  # the callback itself runs: the acknowledgement is received
    if hold in ("unlink", "done"):
        steps.append({"a": "wuntil", "n": 1, "at": hold})
    if hold == "unlink2":
        steps += [{"a": "wuntil", "n": 1, "at": "unlink"}, {"a": "w", "n": 1}]
    steps += [{"a": "drop"}, {"a": "open", "cfg": cfg}, {"a": "obs"}]
    k0 = 100
    for k in range(rng.choice([1, 2, 3])):
        steps.append(legal_op(rng, m, k0 + k, weights=["append"]))
    if m.log and len(m.log) > 1:
        c = m.log[0]
        steps.append({"a": "purge", "id": list(c)})
    steps += [{"a": "flush"}, {"a": "wfree", "n": 1}, {"a": "wrun", "n": 2}, {"a": "wait_cb"}, {"a": "obs"}]
    steps += [{"a": "append", "es": [[max(m.term, m.last[0]) + 1, m.last[1] + 1, "zz", 2]]}, {"a": "flush"},
              {"a": "wrun", "n": 2}, {"a": "wait_cb"}, {"a": "obs"}, {"a": "reopen", "cfg": cfg}, {"a": "read", "from": 0, "to": MAXI}]
    return steps


def truncate_purge_scenario(rng):
    """C08: chunks that closed with a high `last` which a truncation has since made stale, re-append under a new
    term, purge of everything, flush: the stale chunks hold nothing above the purge point and must go."""
    mr = rng.choice([2, 3, 4])
    cfg = {"mr": mr}
    t = rng.choice([1, 2])
    n = rng.choice([4, 6, 9])
    steps = [{"a": "open", "cfg": cfg}]
    steps.append({"a": "append", "es": [[t, i, "p%d" % i, rng.choice([2, 3, 6])] for i in range(n)]})
    steps += [{"a": "flush"}, {"a": "wait_cb"}, {"a": "wait_idle"}]
    j = rng.choice(range(1, n))
    steps.append({"a": "truncate", "i": j})
    k = rng.choice([1, 2, 3])
    steps.append({"a": "append", "es": [[t + 1, j + x, "q%d" % x, 2] for x in range(k)]})
    if rng.random() < 0.5:
        steps.append({"a": "vote", "v": [t + 1, 1]})
    steps += [{"a": "flush"}, {"a": "wait_cb"}, {"a": "wait_idle"}]
    upto = [t + 1, j + rng.choice(range(k))]
    steps.append({"a": "purge", "id": upto})
    steps += [{"a": "flush"}, {"a": "wait_cb"}, {"a": "wait_idle"}, {"a": "read", "from": 0, "to": MAXI},
              {"a": "reopen", "cfg": cfg}, {"a": "read", "from": 0, "to": MAXI}]
    return steps
