"""Per-property check plans and the generic check runner."""
import json, os, random, time, copy, shutil

import vlib, gen

VERIF = vlib.VERIF
KNOWN = os.path.join(VERIF, "known_findings.json")
MAXI = gen.MAXI

# ----------------------------------------------------------------------------------------------
# behaviour post-processing: add observation-only steps to spec-generated scripts


def add_reads(steps, rng):
    """after every write call read a few ranges (C01: all read ranges)"""
    out = []
    for st in steps:
        out.append(st)
        if st["a"] in ("vote", "append", "truncate", "purge", "commit", "userdata", "reopen"):
            lo = rng.choice([0, 1, 2])
            hi = rng.choice([lo, lo + 1, 3, 4, MAXI])
            out.append({"a": "read", "from": lo, "to": hi})
    out.append({"a": "read", "from": 0, "to": MAXI})
    return out


def add_dumps(steps, rng):
    """dump the journal at points where everything is flushed and the worker idle (C11)"""
    out = []
    flushed = False
    for i, st in enumerate(steps):
        out.append(st)
        if st["a"] == "flush":
            flushed = True
        elif st["a"] in ("vote", "append", "truncate", "purge", "commit", "userdata"):
            flushed = False
        elif st["a"] == "wait_idle" and flushed:
            out.append({"a": "wait_cb"})
            out.append({"a": "dump"})
    return out


def add_obs(steps, rng):
    """observe (read everything, cache snapshot) after every worker step and iterate a snapshot (C07/C15)"""
    out = []
    for st in steps:
        out.append(st)
        if st["a"] == "w":
            out.append({"a": "obs"})
            if rng.random() < 0.3:
                out.append({"a": "iter"})
    out.append({"a": "obs"})
    return out


def ident(steps, rng):
    return steps


# ----------------------------------------------------------------------------------------------
# plans: what each property's check runs.  mc: (module, cfg-quick, cfg-thorough, cap-quick, cap-thorough, post)


def plan(pid, tier, seed):
    q = tier == "quick"
    rng = random.Random(seed * 7919 + sum(ord(c) for c in pid))
    P = {"mc": [], "gen": [], "need": {}}

    def mc(module, cfg, cap, post=ident, simulate=None, timeout=1800, pick=None, export=True):
        P["mc"].append(dict(module=module, cfg=cfg, cap=cap, post=post, simulate=simulate, timeout=timeout, pick=pick,
                            export=export))

    def pick_recovering(behs, cap, r):
        """crash behaviours: most exported images hit known finding F4; take mostly those the spec expects to open"""
        good = [b for b in behs if any(st.get("x") == "ok" for st in b)]
        bad = [b for b in behs if not any(st.get("x") == "ok" for st in b)]
        ng = min(len(good), cap * 3 // 4)
        nb = min(len(bad), cap - ng)
        return r.sample(good, ng) + r.sample(bad, nb)

    def pick_rejects(behs, cap, r):
        """C06: the exhaustive set holds every (state, rejected argument) pair; sample evenly over the pairs
        (rejected step, the write before it) so that rare refusals (stale term at the next index, ...) are replayed"""
        groups = {}
        rest = []
        for b in behs:
            keys = []
            prev = ""
            for st in b:
                if st.get("x") == "err":
                    keys.append(json.dumps([st["a"], {k: v for k, v in st.items() if k not in ("x",)}, prev], sort_keys=True))
                if st.get("x") == "ok":
                    prev = json.dumps({k: v for k, v in st.items() if k not in ("x",)}, sort_keys=True)
            if keys:
                for k in keys:
                    groups.setdefault(k, []).append(b)
            else:
                rest.append(b)
        out, seen = [], set()
        ks = sorted(groups)
        r.shuffle(ks)
        rounds = 0
        while len(out) < cap * 9 // 10 and rounds < 50:
            progressed = False
            for k in ks:
                g = groups[k]
                if rounds < len(g):
                    b = g[(rounds * 7919 + len(k)) % len(g)]
                    if id(b) not in seen:
                        seen.add(id(b))
                        out.append(b)
                        progressed = True
                        if len(out) >= cap * 9 // 10:
                            break
            rounds += 1
            if not progressed:
                break
        out += r.sample(rest, min(len(rest), cap - len(out)))
        return out

    def crash_runs(n, calls, small_cache=0.3, gen2=False):
        def g():
            out = []
            for k in range(n):
                cfg = gen.cfg_choices(rng, rng.random() < small_cache)
                if rng.random() < 0.3:
                    cfg = {}
                # a quarter of the runs also suffer injected I/O faults (failed fdatasync, torn write) before the crash
                nf = rng.choice([0, 0, 0, 1, 2])
                st = gen.flush_history(rng, calls, cfg, faults=nf) if rng.random() < 0.5 else gen.purge_history(rng, calls, cfg, faults=nf)
                out.append(dict(mode=rng.choice(["free", "jitter"]), tag="crashprobe", steps=st,
                                probes={"crash": {"stride": 1 if q else 1, "per_pos": 6 if q else 10, "cont": True,
                                                  "bytes": not q, "gen2": gen2}}))
            return out
        P["gen"].append(g)

    def histories(n, calls, opts, mode="free", small_cache=False, rb=False, tag="rand"):
        def g():
            out = []
            for k in range(n):
                cfg = gen.cfg_choices(rng, small_cache, rb)
                out.append(dict(mode=mode, tag=tag, steps=gen.random_history(rng, calls, cfg, opts)))
            return out
        P["gen"].append(g)

    if pid == "C01":
        mc("MC_Seq", "MC_C01_q.cfg" if q else "MC_C01_t.cfg", 1200 if q else 12000, add_reads)
        # the oracle itself: structural invariants and read semantics of the reference log (no replay)
        mc("MCRef", "MC_Ref.cfg", 0, export=False)
        # zero-length payloads (blank entries)
        mc("MC_Seq", "MC_C01z_q.cfg", 300 if q else 3000, add_reads)
        histories(60 if q else 600, 40 if q else 150, dict(flush=0.3, reads=0.5, iter=0.1, reopen=0.05, big=True), rb=True)
        P["need"] = dict(accepted=100, reads=100)
    elif pid == "C02":
        mc("MC_Seq", "MC_C02_q.cfg" if q else "MC_C02_t.cfg", 1200 if q else 12000, add_reads)
        # the configuration (chunk AND cache limits) differs between runs
        histories(60 if q else 600, 30 if q else 100,
                  dict(flush=0.4, sync_wait=1.0, reopen=0.5, reads=0.2, big=True, small_cache=True, rb=True), rb=True)
        P["need"] = dict(opens=200)
    elif pid == "C06":
        mc("MC_Seq", "MC_C06_q.cfg" if q else "MC_C06_t.cfg", 1500 if q else 15000, add_reads, pick=pick_rejects)
        histories(60 if q else 600, 40 if q else 120, dict(flush=0.3, sync_wait=1.0, reopen=0.15, reads=0.3, rejects=0.3))
        P["need"] = dict(rejected=100)
    elif pid == "C11":
        mc("MC_Seq", "MC_C11_q.cfg" if q else "MC_C11_t.cfg", 1200 if q else 12000, add_dumps)
        histories(60 if q else 600, 40 if q else 150, dict(flush=0.4, sync_wait=1.0, dump=0.6, reopen=0.1, big=True))

        # the name <-> offset codec over the whole u64 range: final images shifted to large base offsets
        def g():
            out = []
            for k in range(12 if q else 60):
                cfg = gen.cfg_choices(rng)
                st = gen.random_history(rng, rng.choice([3, 6, 10]), cfg, dict(flush=0.4, sync_wait=1.0, final_reopen=False))
                out.append(dict(mode="free", tag="image:codec", steps=st, probes={"codec": {"n": 8, "all": not q}}))
            return out
        P["gen"].append(g)
        P["need"] = dict(dumps=100, probes=60)
    elif pid == "C16":
        mc("MC_Seq", "MC_C01_q.cfg" if q else "MC_C01_t.cfg", 300 if q else 3000, add_reads)

        def g():
            out = []
            for k in range(12 if q else 120):
                cfg = gen.cfg_choices(rng, True)
                m = gen.Model()
                prefix = [{"a": "open", "cfg": cfg}]
                for j in range(rng.choice([0, 1, 3, 6, 10])):
                    prefix.append(gen.legal_op(rng, m, j))
                    if rng.random() < 0.3:
                        prefix += [{"a": "flush"}, {"a": "wait_cb"}, {"a": "wait_idle"}]
                for b in gen.boundary_args(m):
                    out.append(dict(mode="free", tag="boundary", steps=prefix + [b, {"a": "read", "from": 0, "to": MAXI}]))
            return out
        P["gen"].append(g)
        P["need"] = dict(calls=500)
    elif pid in ("C03", "C05"):
        mc("MC_Conc", "MC_Crash_q.cfg" if q else "MC_Crash_t.cfg", 1200 if q else 10000, pick=pick_recovering,
           timeout=1800 if q else 3000)
        if pid == "C05":
            # a crash may also interrupt the recovery itself (after each of its file-modifying calls)
            mc("MC_Conc", "MC_RCrash_q.cfg" if q else "MC_RCrash_t.cfg", 300 if q else 3000,
               pick=lambda behs, cap, r: r.sample([b for b in behs if any(st["a"] == "crash_in_open" for st in b)] or behs,
                                                  min(cap, len([b for b in behs if any(st["a"] == "crash_in_open" for st in b)] or behs))),
               timeout=1800 if q else 3000)
        crash_runs(36 if q else (150 if pid == "C03" else 100), 14 if q else 30, gen2=(pid == "C05"))
        P["need"] = dict(probes=3000, crashes=500)
    elif pid in ("C09", "C10"):
        mc("MC_Seq", ("MC_%s_q.cfg" if q else "MC_%s_t.cfg") % pid, 300 if q else 2000, timeout=1800 if q else 3000)
        kind = "damage" if pid == "C09" else "tail"

        def g():
            out = []
            for k in range(32 if q else (48 if kind == "damage" else 200)):
                cfg = gen.cfg_choices(rng)
                if rng.random() < 0.25:
                    cfg = {}
                st = gen.random_history(rng, rng.choice([3, 6, 10, 16]) if q else rng.choice([5, 10, 20, 40]), cfg,
                                        dict(flush=0.4, sync_wait=1.0, final_reopen=False, big=not q))
                # thorough: every byte of images up to ~0.8 kB x all 8 bit flips + 0x00 + 0xFF + a random value
                opts = {"max_pos": 70 if q else 800, "all_bits": not q} if kind == "damage" else {"max_cuts": 50 if q else 100000, "all_cuts": not q}
                out.append(dict(mode="free", tag="image:" + kind, steps=st, probes={kind: opts}))
            return out
        P["gen"].append(g)
        P["need"] = dict(probes=2500)
    elif pid == "C13":
        mc("LockSpec", "MC_Lock_q.cfg" if q else "MC_Lock_t.cfg", 500 if q else 3000)
        P["store_conformance"] = False
        P["lock_conformance"] = True

        def g():
            out = []
            for k in range(40 if q else 400):
                cfg = gen.cfg_choices(rng)
                m = gen.Model()
                st = [{"a": "open", "cfg": cfg}]
                for j in range(rng.choice([2, 5, 9])):
                    st.append(gen.legal_op(rng, m, j))
                    if rng.random() < 0.3:
                        st.append({"a": "lock_try", "kind": rng.choice(["open", "dump"])})
                st += [{"a": "flush"}, {"a": "wait_cb"}, {"a": "wait_idle"}, {"a": "lk_child_race", "k": 2},
                       {"a": "lock_try", "kind": "dump"},
                       {"a": "lock_try", "kind": "open"}, {"a": "drop"},
                       {"a": "lk_race", "threads": rng.choice([2, 4, 8]), "rounds": 12 if q else 60},
                       {"a": "lk_child_race", "k": rng.choice([2, 3, 4])},
                       {"a": "lock_try", "kind": "dump"},
                       {"a": "lock_try", "kind": "open"}, {"a": "open", "cfg": cfg}, {"a": "lock_try", "kind": "open"},
                       {"a": "read", "from": 0, "to": MAXI}]
                out.append(dict(mode="free", tag="lock", steps=st))
            return out
        P["gen"].append(g)
        P["need"] = dict(locktries=1000)
    elif pid == "C07":
        mc("MC_Conc", "MC_C07_q.cfg" if q else "MC_C07_t.cfg", 1000 if q else 8000, add_obs)

        def g():
            out = []
            for k in range(80 if q else 400):
                cfg = gen.cfg_choices(rng, True)
                out.append(dict(mode="jitter", tag="cache", steps=gen.cache_history(rng, 25 if q else 60, cfg, readers=True)))
            return out
        P["gen"].append(g)
        # reads on a store recovered from a crash image, under small cache limits
        mc("MC_Conc", "MC_C07crash_q.cfg" if q else "MC_C07crash_t.cfg", 400 if q else 4000, add_obs, pick=pick_recovering)
        crash_runs(12 if q else 60, 12 if q else 30, small_cache=1.0)
        # zero-length payloads: an item of the cache that weighs nothing
        mc("MC_Conc", "MC_C07z_q.cfg", 300 if q else 3000, add_obs)
        P["need"] = dict(obs=1000, reads=200)
    elif pid == "C15":
        def post(steps, r):
            return add_obs(steps, r) + [{"a": "wait_idle"}, {"a": "drain"}]
        mc("MC_Conc", "MC_C07_q.cfg" if q else "MC_C07_t.cfg", 1000 if q else 8000, post)
        mc("MC_Conc", "MC_C07z_q.cfg", 300 if q else 3000, post)

        def g():
            out = []
            for k in range(80 if q else 800):
                cfg = gen.cfg_choices(rng, True)
                out.append(dict(mode="jitter", tag="cache", steps=gen.cache_history(rng, 25 if q else 60, cfg)))
            return out
        P["gen"].append(g)
        P["need"] = dict(obs=1000)
    elif pid == "C04":
        mc("MC_Conc", "MC_C04_q.cfg" if q else "MC_C04_t.cfg", 1500 if q else 12000)

        def g():
            out = []
            for k in range(100 if q else 1000):
                cfg = gen.cfg_choices(rng)
                out.append(dict(mode=rng.choice(["free", "jitter"]), tag="flush",
                                steps=gen.flush_history(rng, 30 if q else 80, cfg, faults=rng.choice([0, 0, 1, 2, 3]))))
            return out
        P["gen"].append(g)
        P["need"] = dict(calls=4000, fs=10000)   # (not `cbs`: callbacks that never come are a violation, not vacuity)
    elif pid == "C08":
        mc("MC_Conc", "MC_C08_q.cfg", 800 if q else 3000)
        mc("MC_Conc", "MC_C08_f.cfg" if q else "MC_C08_t.cfg", 800 if q else 8000)

        def g():
            out = []
            for k in range(100 if q else 1000):
                cfg = gen.cfg_choices(rng)
                if "mr" not in cfg and "ms" not in cfg:
                    cfg["mr"] = rng.choice([2, 3, 4])
                out.append(dict(mode=rng.choice(["free", "jitter"]), tag="purge",
                                steps=gen.purge_history(rng, 30 if q else 80, cfg, faults=rng.choice([0, 0, 0, 1, 2]))))
            for k in range(30 if q else 300):
                out.append(dict(mode="free", tag="truncate-purge", steps=gen.truncate_purge_scenario(rng)))
            return out
        P["gen"].append(g)
        P["need"] = dict(unlinks=300)
    elif pid == "C14":
        mc("MC_Conc", "MC_C14_q.cfg" if q else "MC_C14_t.cfg", 600 if q else 5000)

        def g():
            out = []
            for k in range(60 if q else 600):
                v = ["cb", "nf", "unlink", "unlink2", "done"][k % 5]
                out.append(dict(mode="gated", tag="drop:" + v, steps=gen.drop_scenario(rng, v)))
            return out
        P["gen"].append(g)
        P["need"] = dict(opens=200, unlinks=50)
    else:
        raise vlib.ToolError("no plan for property %s" % pid)
    return P


# ----------------------------------------------------------------------------------------------
# known findings


def load_known():
    if not os.path.exists(KNOWN):
        return []
    return json.load(open(KNOWN)).get("findings", [])


def get_path(d, path):
    cur = d
    for k in path.split("."):
        if isinstance(cur, dict) and k in cur:
            cur = cur[k]
        else:
            return None
    return cur


def match_known(v, known):
    for f in known:
        if f.get("status") != "open" or f["property"] != v["p"]:
            continue
        m = f["match"]
        if m.get("k") != v["k"]:
            continue
        ok = True
        for path, want in m.get("where", {}).items():
            if get_path(v["d"], path) != want:
                ok = False
                break
        if ok:
            return f
    return None


# ----------------------------------------------------------------------------------------------
# the runner


def split_runs(trace_path):
    """index of run id -> list of event lines (strings)"""
    runs, cur, cid = {}, None, None
    for line in open(trace_path):
        if line.startswith('{"e":"reset"') or '"e":"reset"' in line[:40]:
            ev = json.loads(line)
            cid = ev["run"]
            cur = runs.setdefault(cid, [])
        if cur is not None:
            cur.append(line)
    return runs


def write_replay(pid, tier, seed, viol, script, trace_lines):
    d = os.path.join(VERIF, "replays", pid)
    os.makedirs(d, exist_ok=True)
    p = os.path.join(d, "%s-seed%d-run%d.json" % (tier, seed, viol["run"]))
    json.dump(dict(property=pid, tier=tier, seed=seed, violation=viol, script=script,
                   trace=[json.loads(x) for x in trace_lines][:400]), open(p, "w"), indent=1)
    return p


def run_check(pid, tier, seed, keep=False):
    t0 = time.time()
    ok, out, dt = vlib.build_harness()
    if not ok:
        raise vlib.ToolError("harness build failed:\n" + out[-3000:])
    wd = vlib.workdir(pid)
    P = plan(pid, tier, seed)
    rng = random.Random(seed)
    known = load_known()

    # ---- (M) model checking + behaviour export
    mc_info, spec_scripts = [], []
    states = transitions = 0
    for job in P["mc"]:
        r = vlib.tlc_mc(job["module"], job["cfg"], wd, workers=12, timeout=job["timeout"] if tier == "quick" else max(job["timeout"], 5400),
                        simulate=job["simulate"],
                        seed=seed if job["simulate"] else None)
        if r["error"] or r["rc"] != 0:
            open(os.path.join(wd, "tlc-%s.out" % job["cfg"]), "w").write(r["out"])
            raise vlib.ToolError("TLC %s/%s failed (the specification itself, independent of the code): %s\n%s" % (
                job["module"], job["cfg"], r["error"], vlib.tail_nonbeh(r["out"])))
        behs = vlib.parse_behaviours(r["out"])
        total = len(behs)
        if total > job["cap"]:
            behs = job["pick"](behs, job["cap"], rng) if job.get("pick") else rng.sample(behs, job["cap"])
        for b in behs:
            spec_scripts.append(dict(mode="gated", tag="spec:" + job["cfg"], steps=job["post"](b, rng)))
        states += r["distinct"]
        transitions += r["states"]
        mc_info.append(dict(module=job["module"], cfg=job["cfg"], distinct_states=r["distinct"], states_generated=r["states"],
                            depth=r["depth"], wall_s=round(r["wall"], 1), behaviours_exported=total, behaviours_replayed=len(behs)))
        if total == 0 and job.get("export", True):
            raise vlib.ToolError("TLC %s exported no behaviour" % job["cfg"])

    rand_scripts = []
    for g in P["gen"]:
        rand_scripts += g()
    for i, s in enumerate(spec_scripts):
        s["id"] = i + 1
    for i, s in enumerate(rand_scripts):
        s["id"] = 100000 + i + 1

    t_mc = time.time() - t0
    # ---- (R) replay in the real code, (T) record
    quick = tier == "quick"
    traces_s, bad_s = vlib.run_harness(spec_scripts, wd, name="spec", shards=10 if quick else 16,
                                       timeout=900 if quick else 7200) if spec_scripts else ([], [])
    traces_r, bad_r = vlib.run_harness(rand_scripts, wd, name="rand", shards=6 if quick else 16,
                                       timeout=900 if quick else 7200) if rand_scripts else ([], [])
    lost = bad_s + bad_r
    if len(lost) > max(3, (len(spec_scripts) + len(rand_scripts)) // 50):
        raise vlib.ToolError("the harness process died or hung on %d scripts: %s" % (len(lost), lost[:3]))
    if lost:
        print("NOTE: %d scripts killed or hung the harness process and were left out: %s" % (len(lost), [x[0] for x in lost][:10]))

    t_run = time.time() - t0
    # ---- judge: TraceMonitor on everything, TraceStore on the spec-driven runs
    vt = 900 if quick else 7200
    mon = vlib.validate_traces("TraceMonitor", traces_s + traces_r, wd, timeout=vt)
    sto = vlib.validate_traces("TraceStore", traces_s, wd, timeout=vt) if traces_s and P.get("store_conformance", True) else []
    cnt, viols, notes = {}, [], []
    for tp, r, o in mon:
        if r is None:
            raise vlib.ToolError("TraceMonitor did not consume %s:\n%s" % (tp, vlib.tail_nonbeh(o)))
        for k, v in r["out"]["cnt"].items():
            cnt[k] = cnt.get(k, 0) + v
        for v in r["out"]["viol"]:
            v["_trace"] = tp
            viols.append(v)
        notes += r["out"]["notes"]
    drift, conform, sruns, ssteps, smatched, acts = [], 0, 0, 0, 0, set()
    for tp, r, o in sto:
        if r is None:
            raise vlib.ToolError("TraceStore did not consume %s:\n%s" % (tp, vlib.tail_nonbeh(o)))
        so = r["out"]
        drift += so["drift"]
        conform += so["conform"]
        sruns += so["runs"]
        ssteps += so["steps"]
        smatched += so["matched"]
        acts |= set(so["acts"])

    if P.get("lock_conformance"):
        # LockSpec schedules: the outcome of every attempt must be the one the specification computed
        by_id = {sc["id"]: sc for sc in spec_scripts}
        for tp in traces_s:
            for rid, lines in split_runs(tp).items():
                want = [st["x"] for st in by_id[rid]["steps"] if st.get("a") == "lk_open"]
                got = [json.loads(l)["rc"] for l in lines if '"e":"lk"' in l and '"op":"open"' in l]
                sruns += 1
                ssteps += len(want)
                if want == got:
                    conform += 1
                    smatched += len(want)
                else:
                    drift.append(dict(run=rid, seq=0, why="lock outcome differs: want %s got %s" % (want, got)))
        acts |= {"lk_open", "lk_drop"}

    if any(n["k"] == "unobserved_fs_path" for n in notes):
        raise vlib.ToolError("the directory holds bytes the interposed file-system calls do not account for "
                             "(the code writes through a path the shim does not observe): %s" %
                             [n for n in notes if n["k"] == "unobserved_fs_path"][:2])

    # vacuity at the level of probes: a probe the Monitor declines to judge exercises nothing
    skipped = sum(1 for n in notes if n["k"] in ("tail_probe_not_applicable", "tail_probe_boundary_unknown"))
    if pid == "C10" and skipped > 1000 and skipped * 2 > cnt.get("probes", 0):
        raise vlib.ToolError("vacuity: the Monitor skipped %d tail probes as not applicable" % skipped)

    # vacuity guard
    for k, n in P["need"].items():
        if cnt.get(k, 0) < n:
            raise vlib.ToolError("vacuity: only %d %s events in this run, the check needs >= %d" % (cnt.get(k, 0), k, n))

    # ---- verdict
    scripts_by_id = {s["id"]: s for s in spec_scripts + rand_scripts}
    mine = [v for v in viols if v["p"] == pid]
    others = {}
    for v in viols:
        if v["p"] != pid:
            others[v["p"] + ":" + v["k"]] = others.get(v["p"] + ":" + v["k"], 0) + 1
    new, knownhits = [], {}
    for v in mine:
        f = match_known(v, known)
        if f:
            knownhits.setdefault(f["id"], []).append(v)
        else:
            new.append(v)
    for fid, vs in knownhits.items():
        f = [x for x in known if x["id"] == fid][0]
        print("KNOWN-FINDING: property=%s %s (%s; %d occurrence(s) in this run)" % (pid, f["what"], fid, len(vs)))
    rc = 0
    seen_kinds = {}
    shutil.rmtree(os.path.join(VERIF, "replays", pid), ignore_errors=True)
    run_cache = {}
    for v in new:
        rc = 1
        n = seen_kinds.get(v["k"], 0)
        seen_kinds[v["k"]] = n + 1
        if n >= 3:
            continue        # three replay files per violation kind are enough; the count is in the evidence
        if v["_trace"] not in run_cache:
            run_cache[v["_trace"]] = split_runs(v["_trace"])
        script = scripts_by_id.get(v["run"], {})
        vv = {k: x for k, x in v.items() if k != "_trace"}
        path = write_replay(pid, tier, seed, vv, script, run_cache[v["_trace"]].get(v["run"], []))
        if n == 0:
            print("VIOLATION property=%s replay=%s" % (pid, path))
            print("  kind=%s run=%d seq=%d detail=%s" % (v["k"], v["run"], v["seq"], json.dumps(v["d"])[:600]))
    if drift:
        print("DRIFT: %d of %d spec-driven runs no longer match RaftLogStore step for step (first: run %s seq %s: %s)" % (
            sruns - conform, sruns, drift[0]["run"], drift[0]["seq"], drift[0]["why"]))

    # ---- evidence
    samples = []
    for s in (spec_scripts[:2] + rand_scripts[:1]):
        samples.append(dict(id=s["id"], mode=s["mode"], tag=s["tag"], steps=s["steps"][:40]))
    ev = dict(
        property_id=pid, tier=tier, seed=seed, level="model_checking",
        coverage=dict(
            states=states, transitions=transitions,
            traces_validated_against_impl=cnt.get("runs", 0),
            samples=samples,
            exhaustive=all(j["simulate"] is None for j in P["mc"]),
            model_checking=mc_info,
            monitor_counts=cnt,
            spec_driven_runs=sruns, spec_runs_conforming=conform, spec_steps=ssteps, spec_events_matched=smatched,
            spec_actions_replayed=sorted(acts),
            drift=[dict(run=d["run"], seq=d["seq"], why=d["why"]) for d in drift[:5]],
            randomized_runs=len(rand_scripts),
            scripts_lost_to_harness_death=[dict(id=x[0], why=x[1][:120]) for x in lost],
            violations_of_other_properties_seen=others,
            known_findings_hit={k: len(v) for k, v in knownhits.items()},
            notes_by_kind=count_by(notes, "k"),
            rule="behaviours: every terminal behaviour TLC exports from the bounded instance (sampled to the cap with the seed "
                 "when more); randomized runs: seeded generator; each run is one trace, validated event by event by TraceMonitor",
        ),
        assumptions=[
            "crash model and reading of the property text: DESIGN.md sections 3.4 and 3.4a",
            "TLC explores the bounded instance named in model_checking; beyond the bounds only the sampled/randomized runs speak",
            "file-system calls are observed by libc symbol interposition in the harness process",
        ],
        wall_s=round(time.time() - t0, 1),
        violations=len(new),
    )
    os.makedirs(os.path.join(VERIF, "evidence"), exist_ok=True)
    json.dump(ev, open(os.path.join(VERIF, "evidence", "%s.json" % pid), "w"), indent=1)
    if not keep and rc == 0:
        shutil.rmtree(wd, ignore_errors=True)
    print("phases: build+mc %.0fs, harness %.0fs, validation %.0fs" % (t_mc, t_run - t_mc, time.time() - t0 - t_run))
    print("check %s tier=%s seed=%d: %d runs validated (%d spec-driven, %d conforming), %d states, violations=%d, %.0fs" % (
        pid, tier, seed, cnt.get("runs", 0), sruns, conform, states, len(new), time.time() - t0))
    return rc


def count_by(xs, key):
    out = {}
    for x in xs:
        out[x[key]] = out.get(x[key], 0) + 1
    return out


def replay(pid, path):
    r = json.load(open(path))
    ok, out, dt = vlib.build_harness()
    if not ok:
        raise vlib.ToolError("harness build failed")
    wd = vlib.workdir("replay-" + pid)
    s = r["script"]
    s["id"] = r["violation"]["run"]
    traces, bad = vlib.run_harness([s], wd, name="replay", shards=1)
    mon = vlib.validate_traces("TraceMonitor", traces, wd)
    rc = 0
    for tp, res, o in mon:
        if res is None:
            raise vlib.ToolError("TraceMonitor did not consume the replay trace")
        known = load_known()
        for v in res["out"]["viol"]:
            kf = match_known(v, known)
            print("  %s %s run=%d seq=%d %s%s" % (v["p"], v["k"], v["run"], v["seq"], json.dumps(v["d"])[:400],
                                                 "  [known finding %s]" % kf.get("id", "") if kf else ""))
            if v["p"] == pid and not kf:
                rc = 1
    if rc:
        print("VIOLATION property=%s replay=%s" % (pid, path))
    else:
        print("replay: no violation of %s on this tree other than recorded known findings" % pid)
    return rc
