"""Shared plumbing of the checks: TLC runs, behaviour export, harness runs, trace validation."""
import json, os, re, subprocess, sys, time, shutil, random, hashlib

VERIF = os.path.dirname(os.path.dirname(os.path.abspath(__file__)))
SPEC = os.path.join(VERIF, "spec")
HARNESS = os.path.join(VERIF, "harness")
RLH = os.path.join(HARNESS, "target", "debug", "rlh")
WORK = os.path.join(VERIF, "work")


class ToolError(Exception):
    pass


def tail_nonbeh(out, n=40):
    lines = [l for l in out.splitlines() if not l.startswith('<<"BEH"')]
    return "\n".join(lines[-n:])


def sh(cmd, timeout=None, env=None, cwd=None):
    e = dict(os.environ)
    if env:
        e.update(env)
    p = subprocess.run(cmd, shell=isinstance(cmd, str), stdout=subprocess.PIPE, stderr=subprocess.STDOUT,
                       timeout=timeout, env=e, cwd=cwd)
    return p.returncode, p.stdout.decode("utf-8", "replace")


def build_harness():
    """Rebuild the harness against /repo's working tree (cargo decides what is stale)."""
    t0 = time.time()
    rc, out = sh("cargo build 2>&1", cwd=HARNESS, timeout=1200)
    if rc != 0:
        return False, out, time.time() - t0
    return True, out, time.time() - t0


def workdir(name):
    d = os.path.join(WORK, name)
    shutil.rmtree(d, ignore_errors=True)
    os.makedirs(d, exist_ok=True)
    return d


BEH_RE = re.compile(r'^<<"BEH", "(.*)">>$')


def parse_behaviours(text):
    out = []
    for line in text.splitlines():
        m = BEH_RE.match(line)
        if m:
            s = json.loads('"' + m.group(1) + '"')
            out.append(json.loads(s))
    return out


def tlc_mc(module, cfg, wd, workers=12, timeout=900, extra="", simulate=None, seed=None):
    """Run TLC on spec/<module>.tla with spec/<cfg>; returns dict(rc, out, states, distinct, depth, wall)."""
    meta = os.path.join(wd, "meta-" + cfg.replace(".cfg", ""))
    cmd = "timeout %d tlc -workers %d -metadir %s -cleanup -noGenerateSpecTE %s" % (timeout, workers, meta, extra)
    if simulate:
        cmd += " -simulate num=%d -depth %d" % simulate
    if seed is not None:
        cmd += " -seed %d" % seed
    cmd += " -config %s %s.tla" % (cfg, module)
    t0 = time.time()
    rc, out = sh(cmd, cwd=SPEC, timeout=timeout + 60)
    wall = time.time() - t0
    shutil.rmtree(meta, ignore_errors=True)
    r = dict(rc=rc, out=out, wall=wall, states=0, distinct=0, depth=0, error=None)
    m = re.search(r"(\d[\d,]*) states generated, (\d[\d,]*) distinct states found", out)
    if m:
        r["states"] = int(m.group(1).replace(",", ""))
        r["distinct"] = int(m.group(2).replace(",", ""))
    m = re.search(r"depth of the complete state graph search is (\d+)", out)
    if m:
        r["depth"] = int(m.group(1))
    m = re.search(r"^Error: (.*)$", out, re.M)
    if m:
        r["error"] = m.group(1)
    return r


def steps_to_script(run_id, steps, mode="gated", tag=""):
    return {"id": run_id, "mode": mode, "tag": tag, "steps": steps}


def run_harness(scripts, wd, name="t", shards=8, timeout=900):
    """Run scripts (list of dicts) through the harness in `shards` parallel processes; returns trace paths.
    A shard whose process dies or hangs is re-run one script per process; scripts that still kill or hang
    the process are reported in `bad` as (script id, reason) and left out of the traces."""
    n = max(1, min(shards, len(scripts)))
    procs, traces = [], []
    for k in range(n):
        part = scripts[k::n]
        sp = os.path.join(wd, "%s.%d.scripts.ndjson" % (name, k))
        tp = os.path.join(wd, "%s.%d.trace.ndjson" % (name, k))
        with open(sp, "w") as f:
            for s in part:
                f.write(json.dumps(s, separators=(",", ":")) + "\n")
        procs.append((k, part, subprocess.Popen([RLH, "run", sp, tp], stdout=subprocess.PIPE, stderr=subprocess.STDOUT)))
        traces.append(tp)
    bad = []
    for k, part, p in procs:
        ok = True
        try:
            out, _ = p.communicate(timeout=timeout)
            ok = p.returncode == 0
        except subprocess.TimeoutExpired:
            p.kill()
            ok = False
        if ok:
            continue
        # isolate: one process per script, shorter leash
        tp = traces[k]
        with open(tp, "w") as tf:
            for s in part:
                sp1 = os.path.join(wd, "%s.%d.one.scripts.ndjson" % (name, k))
                tp1 = os.path.join(wd, "%s.%d.one.trace.ndjson" % (name, k))
                open(sp1, "w").write(json.dumps(s, separators=(",", ":")) + "\n")
                try:
                    r = subprocess.run([RLH, "run", sp1, tp1], stdout=subprocess.PIPE, stderr=subprocess.STDOUT, timeout=max(180, timeout // 8))
                    if r.returncode == 0:
                        tf.write(open(tp1).read())
                    else:
                        bad.append((s.get("id"), "harness process died: " + r.stdout.decode("utf-8", "replace")[-300:]))
                except subprocess.TimeoutExpired:
                    bad.append((s.get("id"), "harness process hung"))
    return traces, bad


TLA_CP = "/opt/veriftools/tla/tla2tools.jar:/opt/veriftools/tla/CommunityModules-deps.jar"


def tlc_trace(module, trace, out_json, wd, timeout=900):
    """One TLC process folding a trace spec over one trace file (serial GC: many run side by side)."""
    meta = os.path.join(wd, "meta-" + os.path.basename(out_json))
    env = {"TRACE": trace, "OUT": out_json}
    cmd = ("timeout %d java -XX:+UseSerialGC -Xss512m -Xmx6g -XX:CICompilerCount=2 "
           "-Dtlc2.tool.queue.IStateQueue=StateDeque -cp %s tlc2.TLC "
           "-workers 1 -metadir %s -cleanup -noGenerateSpecTE -config %s.cfg %s.tla") % (
        timeout, TLA_CP, meta, module, module)
    return subprocess.Popen(cmd, shell=True, cwd=SPEC, env={**os.environ, **env},
                            stdout=subprocess.PIPE, stderr=subprocess.STDOUT), meta


def validate_traces(module, traces, wd, timeout=900):
    """Run TLC trace validation (TraceMonitor / TraceStore) on every trace file in parallel.
    Returns list of (trace, result-dict or None, tlc output)."""
    res = []
    for lo in range(0, len(traces), 16):
        res += _validate_batch(module, traces[lo:lo + 16], wd, timeout)
    return res


def _validate_batch(module, traces, wd, timeout):
    procs = []
    for tp in traces:
        oj = tp.replace(".trace.ndjson", ".%s.json" % module)
        if os.path.exists(oj):
            os.remove(oj)
        p, meta = tlc_trace(module, tp, oj, wd, timeout)
        procs.append((tp, oj, p, meta))
    res = []
    for tp, oj, p, meta in procs:
        try:
            out, _ = p.communicate(timeout=timeout + 60)
            out = out.decode("utf-8", "replace")
        except subprocess.TimeoutExpired:
            p.kill()
            out = "timeout"
        shutil.rmtree(meta, ignore_errors=True)
        r = None
        if os.path.exists(oj):
            try:
                r = json.load(open(oj))[0]
            except Exception as ex:  # noqa
                out += "\n[bad result json: %s]" % ex
        n_events = sum(1 for _ in open(tp))
        if r is not None and r.get("consumed") != n_events:
            out += "\n[trace not consumed: %s of %d]" % (r.get("consumed"), n_events)
            r = None
        res.append((tp, r, out))
    return res
