------------------------------ MODULE LockSpec ------------------------------
(***************************************************************************)
(* C13: a directory is owned by at most one store or dump at a time.        *)
(* Contenders (threads or processes, RaftLog::open or Dump::new) try to      *)
(* open the directory, hold it, and drop it, in any order.  flock conflicts  *)
(* between open file descriptions, so threads and processes behave alike.    *)
(* FileLock::new is two steps (open/create LOCK, then flock); a contender    *)
(* that loses the flock touches no chunk file.                               *)
(***************************************************************************)
EXTENDS Integers, Sequences, FiniteSets, TLC, Json

CONSTANTS N, MaxSteps, ExportOneIn

Kinds == {"open", "dump"}
Procs == {"thread", "child"}

VARIABLES owner,   \* 0 or the contender holding the directory
          st,      \* contender -> "idle" | "owner"
          kind,    \* contender -> what it opened
          touched, \* TRUE iff a contender that did not get the lock modified a chunk file (never, by design)
          log, n

vars == <<owner, st, kind, touched, log, n>>

Init == /\ owner = 0 /\ st = [c \in 1..N |-> "idle"] /\ kind = [c \in 1..N |-> "open"]
        /\ touched = FALSE /\ log = <<>> /\ n = 0

\* contender c attempts to open the directory as k
Try(c, k, p) ==
  /\ st[c] = "idle" /\ n < MaxSteps
  /\ IF owner = 0
     THEN /\ owner' = c /\ st' = [st EXCEPT ![c] = "owner"] /\ kind' = [kind EXCEPT ![c] = k]
          /\ log' = Append(log, [a |-> "lk_open", c |-> c, kind |-> k, proc |-> p, x |-> "ok"])
     ELSE /\ UNCHANGED <<owner, st, kind>>
          /\ log' = Append(log, [a |-> "lk_open", c |-> c, kind |-> k, proc |-> p, x |-> "err"])
  /\ UNCHANGED touched /\ n' = n + 1

Drop(c) ==
  /\ st[c] = "owner" /\ n < MaxSteps
  /\ owner' = 0 /\ st' = [st EXCEPT ![c] = "idle"]
  /\ log' = Append(log, [a |-> "lk_drop", c |-> c])
  /\ UNCHANGED <<kind, touched>> /\ n' = n + 1

Next == \E c \in 1..N : (\E k \in Kinds, p \in Procs : Try(c, k, p)) \/ Drop(c)

Spec == Init /\ [][Next]_vars

MutualExclusion == Cardinality({c \in 1..N : st[c] = "owner"}) <= 1
OwnerConsistent == (owner = 0) <=> (\A c \in 1..N : st[c] = "idle")
LoserTouchesNothing == ~touched
\* once the owner is dropped the next attempt succeeds: Try is enabled with result ok whenever owner = 0
ReleaseOnDrop == owner = 0 => \A c \in 1..N : st[c] = "idle"

Terminal == n = MaxSteps
Export == (Terminal /\ (ExportOneIn = 1 \/ RandomElement(1..ExportOneIn) = 1)) => PrintT(<<"BEH", ToJson(log)>>)
View == <<owner, st, kind, touched, n>>
=============================================================================
