------------------------------- MODULE MCRef -------------------------------
(***************************************************************************)
(* The reference semantics on its own: every history of Raft-legal          *)
(* operations over a small alphabet keeps the structural invariants of a     *)
(* Raft log (purged <= last, consecutive indexes, the log starts right       *)
(* after the purge point, its last entry is `last`).  This is the sanity     *)
(* check of the oracle every other check compares the store against.         *)
(***************************************************************************)
EXTENDS RaftLogRef, TLC

CONSTANTS MaxOps

Ids == {<<t, i>> : t \in 1..3, i \in 0..3}
Pays == {<<"a", 1>>}

VARIABLES r, n

Op(op, a) == LET x == RefApply(r, op, a) IN
             /\ n < MaxOps /\ x.legal /\ x.ok
             /\ r' = x.st /\ n' = n + 1

Next == \/ \E v \in Ids : Op("vote", [v |-> v])
        \/ \E id \in Ids : Op("append", [es |-> <<<<id[1], id[2], "a", 1>>>>])
        \/ \E id \in Ids : Op("append", [es |-> <<<<id[1], id[2], "a", 1>>, <<id[1], id[2] + 1, "a", 1>>>>])
        \/ \E i \in 0..4 : Op("truncate", [i |-> i])
        \/ \E id \in Ids : Op("purge", [id |-> id])
        \/ \E id \in Ids : Op("commit", [id |-> id])
        \/ \E u \in {"~", "u1"} : Op("userdata", [u |-> u])

Init == r = RefInit /\ n = 0
Spec == Init /\ [][Next]_<<r, n>>

TypeOK == RefTypeOK(r)
\* reads: every range is the live entries in index order
ReadOK == \A from \in 0..4, to \in 0..5 :
            LET xs == Read(r, from, to) IN
            /\ \A k \in 1..Len(xs) : xs[k][2] >= from /\ xs[k][2] < to /\ HasIdx(r, xs[k][2])
            /\ \A k \in 1..(Len(xs) - 1) : xs[k][2] + 1 = xs[k + 1][2]
            /\ Len(xs) = Cardinality({i \in from..(to - 1) : HasIdx(r, i)})
View == r
=============================================================================
