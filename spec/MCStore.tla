------------------------------ MODULE MCStore ------------------------------
(***************************************************************************)
(* Model-checking instance of RaftLogStore: variables, actions that choose  *)
(* arguments from the bounded alphabets, the Monitor folded over the events  *)
(* every action emits (so the checked properties are the formulas of trace   *)
(* validation), and behaviour export for replay in the real code.            *)
(***************************************************************************)
EXTENDS RaftLogStore, Json

CONSTANTS
  Votes,        \* set of votes <<term, node>>
  AppIds,       \* set of log ids offered to append
  Payloads,     \* set of payloads <<tok, len>>
  TruncIdx,     \* set of indexes offered to truncate
  PurgeIds,     \* set of log ids offered to purge
  CommitIds,    \* set of log ids offered to commit
  Users,        \* set of user-data tokens (all of length ULen), "~" = None
  Cfgs,         \* set of configurations [mr, ms, ci, cc, rb, tr]
  MaxCalls,     \* bound on write calls per behaviour
  MaxFlush,     \* bound on flush calls
  MaxReopen,    \* bound on clean drop+open cycles
  MaxCrash,     \* bound on crashes
  MaxFaults,    \* bound on injected I/O faults
  Concurrent,   \* TRUE: worker steps interleave; FALSE: the worker runs to idle after every call
  WithRejects,  \* TRUE: arguments the reference rejects are offered too
  ExportOneIn,  \* behaviour export prints one terminal behaviour in this many (1 = all)
  RecoveryCrashes, \* TRUE: a crash may also interrupt the recovery that follows a crash
  Batch         \* TRUE: append calls with two entries are offered too


VARIABLES
  s,     \* the store (RaftLogStore)
  mon,   \* Monitor state folded over all events so far
  g      \* ghost: counters and the script that replays this behaviour in the real code

vars == <<s, mon, g>>

RECURSIVE FoldMon(_, _, _)
FoldMon(m, evs, k) == IF k > Len(evs) THEN m ELSE FoldMon(MonStep(m, evs[k]), evs, k + 1)

\* rej: the refused calls so far -- part of the VIEW, so that every (state, refused argument) pair is its own
\* state and is exported (otherwise all refusals in a state would collapse into one, they change nothing)
G0 == [calls |-> 0, flushes |-> 0, reopens |-> 0, crashes |-> 0, faults |-> 0, fid |-> 0, log |-> <<>>, len |-> 0, rej |-> <<>>]

ResetEv == [e |-> "reset", run |-> 1, mode |-> "gated", seq |-> 0]

\* take a step result x = [s, evs] and the script step(s) that produce it
Take(x, steps, gdelta) ==
  /\ s' = x.s
  /\ mon' = FoldMon(mon, x.evs, 1)
  /\ g' = [gdelta EXCEPT !.log = @ \o steps, !.len = @ + 1]

\* in the sequential instances the worker runs to idle after every call and the idle point is observed
Settle(x) ==
  IF Concurrent \/ ~x.s.up THEN [s |-> x.s, evs |-> x.evs, steps |-> <<>>]
  ELSE LET r == RunIdle(x.s, <<>>, 0)
           idle == [e |-> "idle", res |-> "ok", obs |-> Obs(r.s), seq |-> 0]
       IN [s |-> r.s, evs |-> x.evs \o r.evs \o <<idle>>, steps |-> <<[a |-> "wait_idle"]>>]

Init ==
  \E cfg \in Cfgs :
    LET x == CallOpen(Down, cfg) IN
    /\ s = x.s
    /\ mon = FoldMon(MonStep(MonInit, ResetEv), x.evs, 1)
    /\ g = [G0 EXCEPT !.log = <<[a |-> "open", cfg |-> cfg]>>]

\* what the API does once the worker has died of an I/O error is not modelled (DESIGN.md section 9)
WorkerAlive == s.w.pc # "exit"
CanCall == s.up /\ g.calls < MaxCalls /\ WorkerAlive

\* arguments: only what the reference accepts unless WithRejects; never outside the legal domain
Offer(op, a) == LET x == RefApply(mon.ref, op, a) IN x.legal /\ (WithRejects \/ x.ok)

DoCall(op, a, step) ==
  /\ CanCall
  /\ Offer(op, a)
  /\ LET x == IF op = "append" THEN CallAppend(s, a.es) ELSE CallWrite(s, op, a)
         y == Settle(x)
     IN \* x: whether the specification expects the call to be accepted (lets the replay stratify its sample)
        Take(y, <<[step EXCEPT !.x = IF x.res = "ok" THEN "ok" ELSE "err"]>> \o y.steps,
             [g EXCEPT !.calls = @ + 1, !.rej = IF x.res = "ok" THEN @ ELSE Append(@, step)])

AVote    == \E v \in Votes : DoCall("vote", [v |-> v], [a |-> "vote", v |-> v, x |-> ""])
AAppend  == \E id \in AppIds, p \in Payloads :
              LET e == <<id[1], id[2], p[1], p[2]>> IN DoCall("append", [es |-> <<e>>], [a |-> "append", es |-> <<e>>, x |-> ""])
\* one call with two entries (the second at the next index): exercises a rotation in the middle of a call,
\* a refusal of the second entry after the first was accepted, and the segment returned for a batch
AAppend2 == /\ Batch
            /\ \E id \in AppIds, p \in Payloads : \E t2 \in {id[1], id[1] + 1} :
                 LET e1 == <<id[1], id[2], p[1], p[2]>>
                     e2 == <<t2, id[2] + 1, p[1], p[2]>>
                 IN DoCall("append", [es |-> <<e1, e2>>], [a |-> "append", es |-> <<e1, e2>>, x |-> ""])
ATruncate == \E i \in TruncIdx : DoCall("truncate", [i |-> i], [a |-> "truncate", i |-> i, x |-> ""])
APurge   == \E id \in PurgeIds : DoCall("purge", [id |-> id], [a |-> "purge", id |-> id, x |-> ""])
ACommit  == \E id \in CommitIds : DoCall("commit", [id |-> id], [a |-> "commit", id |-> id, x |-> ""])
AUser    == \E u \in Users : DoCall("userdata", [u |-> u, ul |-> IF u = "~" THEN 0 ELSE ULen], [a |-> "userdata", u |-> u, x |-> ""])

AFlush ==
  /\ s.up /\ g.flushes < MaxFlush /\ WorkerAlive
  /\ LET fid == g.fid + 1
         x == CallFlush(s, fid)
         y == Settle(x)
     IN Take(y, <<[a |-> "flush"]>> \o y.steps, [g EXCEPT !.flushes = @ + 1, !.fid = fid])

AWorker ==
  /\ Concurrent /\ WEnabled(s)
  /\ LET x == WStep(s, FALSE) IN
     Take([s |-> x.s, evs |-> x.evs \o <<[e |-> "ws", w |-> 1, at |-> x.at, seq |-> 0]>>],
          <<[a |-> "w"]>>, g)

AWorkerFault ==
  /\ Concurrent /\ WEnabled(s) /\ WFaultable(s) /\ g.faults < MaxFaults
  /\ LET x == WStep(s, TRUE)
         plan == <<[call |-> FaultCall(s), nth |-> 1]>>
     IN Take([s |-> x.s, evs |-> <<[e |-> "fault", seq |-> 0]>> \o x.evs \o <<[e |-> "ws", w |-> 1, at |-> x.at, seq |-> 0]>>],
             <<[a |-> "fault", plan |-> plan], [a |-> "w"]>>, [g EXCEPT !.faults = @ + 1])

AReopen ==
  \* C02's premise: everything journalled has been handed over, written, synced and acknowledged
  /\ s.up /\ g.reopens < MaxReopen /\ s.pend = <<>> /\ WIdle(s)
  /\ \E cfg \in Cfgs :
       LET d == CallDrop(s)
           o == CallOpen(d.s, cfg)
           y == Settle([s |-> o.s, evs |-> d.evs \o o.evs])
       IN Take(y, <<[a |-> "reopen", cfg |-> cfg]>> \o y.steps, [g EXCEPT !.reopens = @ + 1])

ACrash ==
  /\ s.up /\ g.crashes < MaxCrash
  /\ LET L == Linked(s.fs) IN
     \E img \in [1..Len(L) -> UNION {ImageChoices(L[j]) : j \in 1..Len(L)}] :
       /\ \A j \in 1..Len(L) : img[j] \in ImageChoices(L[j])
       /\ \E cfg \in Cfgs :
            LET fs1 == [Down EXCEPT !.fs = ApplyImage(s.fs, img), !.inst = s.inst]
                cev == [e |-> "crash", kind |-> "power", img |-> ImgDesc(s.fs, img), seq |-> 0]
                o == CallOpen(fs1, cfg)
                y == IF o.res = "ok" THEN Settle([s |-> o.s, evs |-> <<cev>> \o o.evs])
                     ELSE [s |-> o.s, evs |-> <<cev>> \o o.evs, steps |-> <<>>]
                step == [a |-> "crash", kind |-> "power",
                         img |-> [j \in 1..Len(L) |-> <<L[j].ck, img[j].n, img[j].tail>>]]
            IN \* x: what the specification expects of this open (lets the replay sample both outcomes)
               Take(y, <<step, [a |-> "open", cfg |-> cfg, x |-> o.res]>> \o y.steps, [g EXCEPT !.crashes = @ + 1])

\* the machine dies, recovery starts, performs only the first k of its file-modifying calls, and the
\* machine dies again (power loss: the new head, if written, is not durable); then recovery runs to the end
ACrashInRecovery ==
  /\ s.up /\ g.crashes < MaxCrash /\ RecoveryCrashes
  /\ LET L == Linked(s.fs) IN
     \E img \in [1..Len(L) -> UNION {ImageChoices(L[j]) : j \in 1..Len(L)}] :
       /\ \A j \in 1..Len(L) : img[j] \in ImageChoices(L[j])
       /\ \E cfg \in Cfgs :
            LET d1 == [Down EXCEPT !.fs = ApplyImage(s.fs, img), !.inst = s.inst]
                cev == [e |-> "crash", kind |-> "power", img |-> ImgDesc(s.fs, img), seq |-> 0]
                o1 == Recover(d1.fs, cfg, d1.inst)
                mods == SelectSeq(o1.evs, Modifying)
            IN /\ o1.res = "ok" /\ Len(mods) >= 1
               /\ \E k \in 1..Len(mods), keepHead \in BOOLEAN :
                    LET fsk == ApplyFsEvents(d1.fs, mods, k, o1.s.st)
                        \* second power loss: everything durable survives; an unsynced new head may or may not
                        L2 == Linked(fsk)
                        img2 == [j \in 1..Len(L2) |-> [n |-> IF keepHead THEN Len(L2[j].recs) ELSE L2[j].dur, tail |-> "none"]]
                        d2 == [Down EXCEPT !.fs = ApplyImage(fsk, img2), !.inst = s.inst]
                        cev2 == [e |-> "crash", kind |-> "power", img |-> ImgDesc(fsk, img2), seq |-> 0]
                        o2 == CallOpen(d2, cfg)
                        partial == <<EvB("open", cfg)>> \o EventsUpTo(o1.evs, k)
                        y == IF o2.res = "ok" THEN Settle([s |-> o2.s, evs |-> <<cev>> \o partial \o <<cev2>> \o o2.evs])
                             ELSE [s |-> o2.s, evs |-> <<cev>> \o partial \o <<cev2>> \o o2.evs, steps |-> <<>>]
                        st1 == [a |-> "crash", kind |-> "power", img |-> [j \in 1..Len(L) |-> <<L[j].ck, img[j].n, img[j].tail>>]]
                        st2 == [a |-> "crash_in_open", cfg |-> cfg, k |-> k, keep |-> keepHead]
                    IN Take(y, <<st1, st2, [a |-> "open", cfg |-> cfg, x |-> o2.res]>> \o y.steps, [g EXCEPT !.crashes = @ + 1])

Next == AVote \/ AAppend \/ AAppend2 \/ ATruncate \/ APurge \/ ACommit \/ AUser \/ AFlush
        \/ AWorker \/ AWorkerFault \/ AReopen \/ ACrash \/ ACrashInRecovery

Spec == Init /\ [][Next]_vars

-----------------------------------------------------------------------------
(* properties: no violation beyond the recorded known findings               *)

NoViolation == \A k \in 1..Len(mon.out.viol) : KnownFinding(mon.out.viol[k])

\* direct state invariants, independent of the monitor
CacheCounterExact == s.up => s.csz = SumSeq([k \in 1..Len(s.cache) |-> s.cache[k].p[2]])
ChunksAbut ==
  s.up => /\ \A k \in 1..(Len(s.closed) - 1) : s.closed[k].end = s.closed[k + 1].ck
          /\ (s.closed # <<>> => s.closed[Len(s.closed)].end = s.open.ck)
DurableIsPrefix == \A k \in 1..Len(s.fs) : s.fs[k].dur <= Len(s.fs[k].recs)

-----------------------------------------------------------------------------
(* C10 / C09 at the level of the recovery procedure: in every quiescent state, for every image obtained *)
(* from the files by cutting / zero-filling the newest chunk (C10) or by damaging one record (C09).      *)

Quiescent == s.up /\ WIdle(s) /\ s.pend = <<>>

RECURSIVE FoldSt(_, _, _)
FoldSt(st, recs, k) == IF k > Len(recs) THEN st ELSE FoldSt(ApplyState(st, recs[k].r), recs, k + 1)
RECURSIVE FoldFiles(_, _, _)
FoldFiles(st, files, k) == IF k > Len(files) THEN st ELSE FoldFiles(FoldSt(st, files[k].recs, 1), files, k + 1)

\* the newest file keeps n complete records followed by `tail`; all other files intact
CutNewest(fs, n, tail) ==
  LET L == Linked(fs) IN
  [j \in 1..Len(L) |-> IF j = Len(L) THEN [L[j] EXCEPT !.recs = SubSeq(@, 1, n), !.tail = tail, !.dur = n] ELSE L[j]]

TailExact ==
  Quiescent =>
    LET L == Linked(s.fs)
        f == L[Len(L)]
    IN \A n \in 0..Len(f.recs), tail \in {"none", "part", "zero"}, tr \in BOOLEAN :
         (n = Len(f.recs) => tail = "none") =>
           LET img == CutNewest(s.fs, n, tail)
               r == Recover(img, [s.cfg EXCEPT !.tr = tr], 0)
           IN IF tr \/ tail = "none"
              THEN /\ r.res = "ok"
                   /\ r.s.st = FoldFiles(St0, img, 1)              \* exactly the complete records
                   /\ LET g2 == r.s.fs[FsIdx(r.s.fs, f.ck)] IN      \* the file ends at that boundary (or is gone)
                      (n > 0 => g2.linked /\ Len(g2.recs) = n /\ g2.tail = "none")
              ELSE /\ r.res = "tail"                               \* truncation disabled: refuse ...
                   /\ r.s.fs = img                                 \* ... and leave the files untouched

\* one complete record (file j, record n+1) no longer decodes; class "bad": rejected value / checksum
DamageOne(fs, j, n, cls) ==
  LET L == Linked(fs) IN
  [i \in 1..Len(L) |-> IF i = j THEN [L[i] EXCEPT !.recs = SubSeq(@, 1, n), !.tail = cls, !.dur = n] ELSE L[i]]

CorruptionReported ==
  Quiescent =>
    LET L == Linked(s.fs) IN
    \A j \in 1..Len(L) : \A n \in 0..(Len(L[j].recs) - 1) :
      LET img == DamageOne(s.fs, j, n, "bad")
          r == Recover(img, s.cfg, 0)
      IN r.res # "ok" /\ r.s.fs = img            \* refused, and nothing was modified

\* every middle chunk removed
MissingChunkReported ==
  Quiescent =>
    LET L == Linked(s.fs) IN
    \A j \in 2..(Len(L) - 1) :
      LET img == [i \in 1..(Len(L) - 1) |-> IF i < j THEN L[i] ELSE L[i + 1]]
          r == Recover(img, s.cfg, 0)
      IN r.res = "gap" /\ r.s.fs = img

\* behaviour export: one line per state in which nothing more can be scheduled
Terminal ==
  \/ ~s.up
  \/ s.w.pc = "exit"
  \/ /\ g.calls = MaxCalls /\ g.flushes = MaxFlush /\ g.reopens = MaxReopen /\ g.crashes = MaxCrash
     /\ (~Concurrent \/ ~WEnabled(s))
Export == (Terminal /\ (ExportOneIn = 1 \/ RandomElement(1..ExportOneIn) = 1)) => PrintT(<<"BEH", ToJson(g.log)>>)

\* state constraint used by the simulation configs to bound the depth of behaviours
Bound == g.len < 60

View == <<s, mon, [g EXCEPT !.log = <<>>, !.len = 0]>>

\* what an error trace shows
Alias == [viol |-> mon.out.viol, notes |-> mon.out.notes, last |-> IF g.log = <<>> THEN <<>> ELSE g.log[Len(g.log)]]
=============================================================================
