SPECIFICATION Spec
CONSTANTS
  Votes <- C_Votes
  AppIds <- C_AppIds
  Payloads <- C_Payloads
  TruncIdx <- C_TruncIdx
  PurgeIds <- C_PurgeIds
  CommitIds <- C_CommitIds
  Users <- C_Users
  Cfgs <- C_Cfgs
  MaxCalls = 3
  MaxFlush = 1
  MaxReopen = 1
  MaxCrash = 0
  MaxFaults = 0
  Concurrent = FALSE
  WithRejects = TRUE
  ExportOneIn = 20
  RecoveryCrashes = FALSE
  Batch = FALSE
INVARIANTS NoViolation CacheCounterExact ChunksAbut DurableIsPrefix Export 
VIEW View
ALIAS Alias
CHECK_DEADLOCK FALSE
