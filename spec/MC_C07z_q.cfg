SPECIFICATION Spec
CONSTANTS
  Votes <- C_Votes
  AppIds <- C_AppIds
  Payloads <- C_PayloadsZ
  TruncIdx <- C_TruncIdx
  PurgeIds <- C_PurgeIds
  CommitIds <- C_CommitIds
  Users <- C_Users
  Cfgs <- C_CfgsCacheZ
  MaxCalls = 3
  MaxFlush = 1
  MaxReopen = 0
  MaxCrash = 0
  MaxFaults = 0
  Concurrent = TRUE
  WithRejects = FALSE
  ExportOneIn = 4
  RecoveryCrashes = FALSE
  Batch = FALSE
INVARIANTS NoViolation CacheCounterExact ChunksAbut DurableIsPrefix Export 
VIEW View
ALIAS Alias
CHECK_DEADLOCK FALSE
