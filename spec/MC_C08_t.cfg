SPECIFICATION Spec
CONSTANTS
  Votes <- C_Votes
  AppIds <- C_AppIds
  Payloads <- C_Payloads
  TruncIdx <- C_TruncIdx
  PurgeIds <- C_PurgeIds
  CommitIds <- C_CommitIds
  Users <- C_Users
  Cfgs <- C_CfgsRot
  MaxCalls = 3
  MaxFlush = 2
  MaxReopen = 0
  MaxCrash = 0
  MaxFaults = 1
  Concurrent = TRUE
  WithRejects = FALSE
  ExportOneIn = 10
  RecoveryCrashes = FALSE
  Batch = FALSE
INVARIANTS NoViolation CacheCounterExact ChunksAbut DurableIsPrefix Export 
VIEW View
ALIAS Alias
CHECK_DEADLOCK FALSE
