------------------------------- MODULE MC_Conc -------------------------------
(* Concurrent instance: every worker stop is a separately scheduled step, so TLC visits every
   interleaving of caller calls with worker progress (batch composition, write, per-file sync,
   boundary update, callbacks, unlink), under small cache limits, with injected I/O faults. *)
EXTENDS MCStore

C_Votes    == {<<1, 1>>}
C_AppIds   == {<<1, 0>>, <<1, 1>>, <<2, 1>>}
C_Payloads == {<<"a", 1>>}
C_PayloadsZ == {<<"a", 1>>, <<"", 0>>}
C_TruncIdx == {0, 1}
C_PurgeIds == {<<1, 0>>, <<1, 1>>}
C_CommitIds == {}
C_Users    == {}
Cfg(mr, ms, ci, cc, tr) == [mr |-> mr, ms |-> ms, ci |-> ci, cc |-> cc, rb |-> -1, tr |-> tr]
\* cache limits {0, 1, unlimited} x capacity {0, unlimited}, chunk limits that rotate after 2 / every record
C_CfgsCache == {Cfg(2, -1, 0, -1, TRUE), Cfg(2, -1, 1, -1, TRUE), Cfg(2, -1, -1, 0, TRUE), Cfg(2, -1, -1, -1, TRUE)}
C_CfgsCacheZ == {Cfg(2, -1, 0, -1, TRUE), Cfg(2, -1, 1, -1, TRUE), Cfg(2, -1, -1, 0, TRUE)}
C_CfgsOne   == {Cfg(2, -1, 0, -1, TRUE)}
C_CfgsRot   == {Cfg(2, -1, -1, -1, TRUE), Cfg(1, -1, -1, -1, TRUE)}
C_CfgsRot3  == {Cfg(3, -1, -1, -1, TRUE)}
C_CfgsCrashCache == {Cfg(2, -1, 0, -1, TRUE), Cfg(3, -1, 1, -1, TRUE)}
\* crash instances: rotation after 2 / 3 records and no rotation at all; tail truncation on and off
C_CfgsCrash == {Cfg(2, -1, -1, -1, TRUE), Cfg(3, -1, -1, -1, TRUE), Cfg(-1, -1, -1, -1, TRUE), Cfg(-1, -1, -1, -1, FALSE)}
=============================================================================
