SPECIFICATION Spec
CONSTANTS
  N = 3
  MaxSteps = 5
  ExportOneIn = 10
INVARIANTS MutualExclusion OwnerConsistent LoserTouchesNothing ReleaseOnDrop Export
CHECK_DEADLOCK FALSE
