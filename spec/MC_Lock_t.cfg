SPECIFICATION Spec
CONSTANTS
  N = 3
  MaxSteps = 7
  ExportOneIn = 200
INVARIANTS MutualExclusion OwnerConsistent LoserTouchesNothing ReleaseOnDrop Export
CHECK_DEADLOCK FALSE
