SPECIFICATION Spec
CONSTANTS
  MaxOps = 6
INVARIANTS TypeOK ReadOK
VIEW View
CHECK_DEADLOCK FALSE
