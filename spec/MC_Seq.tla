------------------------------- MODULE MC_Seq -------------------------------
(* Sequential instance: the worker runs to idle after every call; all histories
   over the alphabet below, with rejected arguments, clean reopen with a changed
   configuration, every rotation point. *)
EXTENDS MCStore

C_Votes    == {<<1, 1>>, <<2, 1>>}
C_AppIds   == {<<1, 0>>, <<1, 1>>, <<2, 1>>, <<2, 2>>, <<1, 2>>}
C_Payloads == {<<"a", 1>>, <<"b", 3>>}
C_PayloadsZ == {<<"a", 1>>, <<"", 0>>}
C_TruncIdx == {0, 1, 2}
C_PurgeIds == {<<1, 0>>, <<1, 1>>, <<2, 1>>, <<2, 3>>}
C_CommitIds == {<<1, 0>>, <<2, 1>>}
C_Users    == {"u1"}
Cfg(mr, ms, ci, cc, tr) == [mr |-> mr, ms |-> ms, ci |-> ci, cc |-> cc, rb |-> -1, tr |-> tr]
C_Cfgs     == {Cfg(2, -1, -1, -1, TRUE), Cfg(-1, 100, -1, -1, TRUE), Cfg(-1, -1, -1, -1, TRUE)}
\* reopen under a different configuration: chunk limits AND cache limits differ between runs
C_CfgsReopen == C_Cfgs \cup {Cfg(-1, -1, 0, -1, TRUE), Cfg(3, -1, 1, -1, TRUE)}
\* limits 0 and 1 (every record closes its chunk), a size limit hit by the head alone, a record limit of 3
C_CfgsWide == C_Cfgs \cup {Cfg(1, -1, -1, -1, TRUE), Cfg(0, -1, -1, -1, TRUE), Cfg(3, -1, -1, -1, TRUE), Cfg(-1, 10, -1, -1, TRUE)}
=============================================================================
