----------------------------- MODULE Monitor -----------------------------
(***************************************************************************)
(* The property-level abstract machine over OBSERVABLE EVENTS ONLY: API     *)
(* calls with results, file-system calls as seen below the library,          *)
(* callback invocations, crash/damage probes.  Every listed property is a    *)
(* predicate evaluated by MonStep at the events it speaks about; a failed     *)
(* predicate is recorded in out.viol with the property id.                    *)
(*                                                                          *)
(* MonStep is a pure function  (monitor state, event) -> monitor state, so    *)
(* the same definitions are folded (a) by TraceMonitor over traces recorded   *)
(* from the real code and (b) by the MC_* instances over the events the       *)
(* implementation-shaped specification RaftLogStore emits.                    *)
(*                                                                          *)
(* Event vocabulary: see harness/src/session.rs.  Integers are small; values  *)
(* near u64::MAX travel as values near 10^9.                                  *)
(***************************************************************************)
EXTENDS Integers, Sequences, FiniteSets, TLC, RaftLogRef

-----------------------------------------------------------------------------
(* generic helpers *)

Max2(a, b) == IF a > b THEN a ELSE b
Min2(a, b) == IF a < b THEN a ELSE b

RECURSIVE SumSeq(_)
SumSeq(s) == IF s = <<>> THEN 0 ELSE s[1] + SumSeq(Tail(s))

SetMin(S) == CHOOSE x \in S : \A y \in S : x <= y
SetMax(S) == CHOOSE x \in S : \A y \in S : x >= y

IsPrefixStr(p, s) == \* p, s strings: res classes are compared by their first characters via sets below
  FALSE

Ok(res)    == res = "ok"
\* result classes are produced by the harness as "ok" | "err:<Kind>:<class>" | "panic:<msg>" | other tokens;
\* the harness also supplies rc \in {"ok","err","panic","none"} so that no string parsing is needed here.

-----------------------------------------------------------------------------
(* record sizes of the on-disk format (type tag 4 + body + checksum 8); used  *)
(* only to place the entries of a multi-entry append; cross-checked against   *)
(* the observed journal end (a mismatch disables offset-dependent checks).    *)

OptIdSize(id) == IF id = None THEN 1 ELSE 17
StateSize(st, ul) == 12 + 1 + OptIdSize(st.v) + OptIdSize(st.l) + OptIdSize(st.c) + OptIdSize(st.p)
                        + (IF st.u = "~" THEN 1 ELSE 5 + ul)
AppSize(e) == 12 + 16 + 4 + e[4]

-----------------------------------------------------------------------------
(* monitor state *)

NoPend == [op |-> "none"]

Out0 == [viol |-> <<>>, notes |-> <<>>,
         cnt |-> [events |-> 0, runs |-> 0, calls |-> 0, accepted |-> 0, rejected |-> 0,
                  reads |-> 0, fs |-> 0, cbs |-> 0, opens |-> 0, probes |-> 0, unlinks |-> 0,
                  dumps |-> 0, obs |-> 0, idle |-> 0, crashes |-> 0, locktries |-> 0]]

RunInit(out, e) ==
  [run |-> e.run, mode |-> e.mode, tainted |-> FALSE, open |-> FALSE,
   cfg |-> [mr |-> -1, ms |-> -1, ci |-> -1, cc |-> -1, rb |-> -1, tr |-> TRUE],
   ref |-> RefInit,
   pre |-> [st |-> RefSt(RefInit), es |-> <<>>, cn |-> 0, csz |-> 0, ev |-> None],
   pend |-> NoPend,
   nacc |-> 0,                  \* accepted writes so far (history length)
   nacc0 |-> 0,                 \* history length when the current instance was opened
   ulen |-> 0,                  \* byte length of the current user data
   views |-> <<RefInit>>,       \* views[k+1] = reference state after k accepted writes (k >= vbase)
   vbase |-> 0,
   jend |-> 0,                  \* journal end (global offset) after the last accepted write
   jr |-> <<>>,                 \* expected journal: [off, sz, rec] per accepted write record
   sizeok |-> TRUE,             \* computed sizes agree with observed journal end
   loc |-> <<>>,                \* live entries' record offsets: sequence of [i, off]
   heads |-> <<>>,              \* [ck, st] head snapshot expected in chunk ck
   newck |-> <<>>,              \* chunks created during the pending call
   files |-> <<>>,              \* [ck, w, d, linked, sf] written-through / durable-through extents
   fl |-> <<>>,                 \* [fid, n, end, st, inst, cb]
   acked |-> 0,
   inst |-> 0,                  \* current instance number (0 = none yet)
   wl |-> <<>>,                 \* [label, inst, dropped]
   obsolete |-> <<>>,           \* [ck, at] journal offset at which chunk ck became obsolete
   oblig |-> <<>>,              \* [ck, n] chunks that must be gone once write n is flushed and the worker idle
   rejSeen |-> FALSE,
   bigSeen |-> FALSE,           \* an argument at the integer limits has been passed in this run
   faulted |-> FALSE,
   crashed |-> FALSE,           \* the current directory is a post-crash image not yet reopened
   img |-> <<>>,                \* that image: [ck, keep, zeros, tail, synced, written] per file
   evmoved |-> FALSE,           \* a boundary update happened (or was in flight) since the pending call began
   evfly |-> FALSE,             \* the worker announced a boundary update and has not been seen past it yet
   wactive |-> FALSE,           \* worker events seen since the last idle point
   dropAcked |-> FALSE,
   owners |-> {},               \* contenders currently holding the directory (C13 schedules)
   unlocked |-> FALSE,          \* the current instance has released its directory lock (drop in progress)
   out |-> [out EXCEPT !.cnt.runs = @ + 1]]

Viol(m, p, k, e, d) ==
  [m EXCEPT !.out.viol = Append(@, [p |-> p, k |-> k, run |-> m.run, seq |-> e.seq, d |-> d]),
            !.tainted = TRUE]

\* a violation that does not invalidate the reference state (FS-level properties)
ViolKeep(m, p, k, e, d) ==
  [m EXCEPT !.out.viol = Append(@, [p |-> p, k |-> k, run |-> m.run, seq |-> e.seq, d |-> d])]

Note(m, k, e) == [m EXCEPT !.out.notes = Append(@, [k |-> k, run |-> m.run, seq |-> e.seq])]

Cnt(m, f) == [m EXCEPT !.out.cnt[f] = @ + 1]

-----------------------------------------------------------------------------
(* files: extents per chunk file, derived from FS events alone *)

FileIdx(m, ck) == IF \E j \in 1..Len(m.files) : m.files[j].ck = ck
                  THEN CHOOSE j \in 1..Len(m.files) : m.files[j].ck = ck ELSE 0

KnownCks(m) == {m.files[j].ck : j \in 1..Len(m.files)}
LinkedCks(m) == {m.files[j].ck : j \in {k \in 1..Len(m.files) : m.files[k].linked}}

\* the chunk id following ck among all chunks ever seen, or `dflt`
NextCk(m, ck, dflt) == LET S == {c \in KnownCks(m) : c > ck} IN IF S = {} THEN dflt ELSE SetMin(S)

\* every byte of the journal range [.., end) that lies in a linked file with id >= lo is durable
DurableThrough(m, lo, end) ==
  \A j \in 1..Len(m.files) :
    LET f == m.files[j] IN
    (f.linked /\ f.ck >= lo /\ f.ck < end) => f.d >= Min2(end, NextCk(m, f.ck, end)) - f.ck

UndurableFiles(m, lo, end) ==
  {m.files[j].ck : j \in {k \in 1..Len(m.files) :
      LET f == m.files[k] IN f.linked /\ f.ck >= lo /\ f.ck < end
                             /\ f.d < Min2(end, NextCk(m, f.ck, end)) - f.ck}}

SetFiles(m, listing) ==
  \* (re)initialise extents from a directory listing [[ck, size], ...]: what is on disk is what survives
  [m EXCEPT !.files = [j \in 1..Len(listing) |->
        [ck |-> listing[j][1], w |-> listing[j][2], d |-> listing[j][2], linked |-> TRUE, sf |-> FALSE]]]

-----------------------------------------------------------------------------
(* chunk of a journal offset: the largest known chunk id <= off *)

ChunkOfOff(m, off) == LET S == {c \in KnownCks(m) : c <= off} IN IF S = {} THEN -1 ELSE SetMax(S)

LiveIn(m, ck, hi) ==   \* live entries whose record lies in [ck, hi)
  {j \in 1..Len(m.loc) : m.loc[j].off >= ck /\ m.loc[j].off < hi /\ HasIdx(m.ref, m.loc[j].i)}

-----------------------------------------------------------------------------
(* FS events *)

FsStep(m0, e) ==
  LET m == Cnt(m0, "fs")
      j == FileIdx(m, e.ck)
      isw == e.t # "c"
      m1 == IF isw THEN [m EXCEPT !.wactive = TRUE, !.evfly = FALSE] ELSE m
  IN
  IF e.ck < 0 THEN m1       \* LOCK file and foreign files: handled by lock events
  ELSE
  CASE e.call = "creat" ->
         IF e.res = 0
         THEN [m1 EXCEPT !.files = Append(SelectSeq(@, LAMBDA f : f.ck # e.ck),
                                         [ck |-> e.ck, w |-> 0, d |-> 0, linked |-> TRUE, sf |-> FALSE]),
                        !.newck = Append(@, e.ck)]
         ELSE m1
    [] e.call = "write" ->
         IF j = 0 THEN m1
         ELSE IF e.res = e.len
              THEN IF e.off = m1.files[j].w
                   THEN [m1 EXCEPT !.files[j].w = @ + e.len]
                   ELSE \* C11: the journal is append-only; a write anywhere else damages it
                        \* (the extent still grows to the end of this write: the bytes are accounted for)
                        ViolKeep([m1 EXCEPT !.files[j].w = IF e.off + e.len > @ THEN e.off + e.len ELSE @],
                                 "C11", "write_not_at_end", e, [ck |-> e.ck, off |-> e.off, w |-> m1.files[j].w])
              ELSE m1
    [] e.call \in {"fdatasync", "fsync"} ->
         IF j = 0 THEN m1
         ELSE IF e.res = 0 THEN [m1 EXCEPT !.files[j].d = m1.files[j].w]
              ELSE [m1 EXCEPT !.files[j].sf = TRUE]
    [] e.call = "ftruncate" ->
         IF j = 0 \/ e.res # 0 THEN m1
         ELSE IF e.off > m1.files[j].w
              THEN \* C11: set_len beyond the written extent puts bytes into the journal that no accepted write produced
                   ViolKeep([m1 EXCEPT !.files[j].w = e.off], "C11", "file_extended_beyond_journal", e,
                            [ck |-> e.ck, off |-> e.off, w |-> m1.files[j].w])
              ELSE [m1 EXCEPT !.files[j].w = Min2(@, e.off), !.files[j].d = Min2(@, e.off)]
    [] e.call = "unlink" ->
         IF e.res # 0 THEN m1
         ELSE
         LET m2 == Cnt(m1, "unlinks")
             linked == LinkedCks(m2)
             hi == NextCk(m2, e.ck, m2.jend)
             obs == SelectSeq(m2.obsolete, LAMBDA o : o.ck = e.ck)
             \* (a) oldest first
             \* (the worker deletes oldest-first; recovery may only drop the newest file, and only when it holds
             \*  no complete record -- either way the remaining files stay a gap-free run starting with a snapshot)
             m3 == IF j # 0 /\ linked # {} /\ (IF isw THEN e.ck # SetMin(linked)
                                                ELSE e.ck # SetMax(linked) \/ m2.files[j].w > 0)
                   THEN ViolKeep(m2, "C08", "unlink_not_oldest", e, [ck |-> e.ck, oldest |-> SetMin(linked)])
                   ELSE m2
             \* (b) nothing live is stored in it
             \* (while a crashed directory is being recovered the reference state is the pre-crash one: skip)
             m4 == IF ~m3.tainted /\ ~m3.crashed /\ m3.sizeok /\ LiveIn(m3, e.ck, hi) # {}
                   THEN ViolKeep(m3, "C08", "unlink_live_entries", e,
                                 [ck |-> e.ck, live |-> {m3.loc[x].i : x \in LiveIn(m3, e.ck, hi)}])
                   ELSE m3
             \* (c) what made it obsolete is durable in the files that remain
             m5 == IF ~m4.tainted /\ ~m4.crashed /\ m4.sizeok /\ obs # <<>> /\ ~DurableThrough(m4, hi, obs[1].at)
                   THEN ViolKeep(m4, "C08", "unlink_before_purge_durable", e,
                                 [ck |-> e.ck, at |-> obs[1].at, files |-> UndurableFiles(m4, hi, obs[1].at),
                                  after_failed_sync |-> \E x \in 1..Len(m4.files) : m4.files[x].sf])
                   ELSE m4
             \* (d) the remaining files must start with a snapshot: the next file's head is durable
             m6 == m5
         IN IF j = 0 THEN m6 ELSE [m6 EXCEPT !.files[j].linked = FALSE]
    [] OTHER -> m1

-----------------------------------------------------------------------------
(* flush table *)

FlIdx(m, fid) == IF \E j \in 1..Len(m.fl) : m.fl[j].fid = fid
                 THEN CHOOSE j \in 1..Len(m.fl) : m.fl[j].fid = fid ELSE 0

CbStep(m0, e) ==
  LET m == Cnt(m0, "cbs")
      j == FlIdx(m, e.fid)
  IN
  IF j = 0 THEN Note(m, "cb_unknown_fid", e)
  ELSE
  LET f == m.fl[j]
      \* at most once
      m1 == IF f.st # "wait" THEN ViolKeep(m, "C04", "ack_twice", e, [fid |-> e.fid]) ELSE m
      \* in request order, per instance
      earlier == {k \in 1..Len(m.fl) : m.fl[k].inst = f.inst /\ m.fl[k].fid < f.fid /\ m.fl[k].cb /\ m.fl[k].st = "wait"}
      m2 == IF earlier # {} THEN ViolKeep(m1, "C04", "ack_out_of_order", e, [fid |-> e.fid, waiting |-> {m.fl[k].fid : k \in earlier}]) ELSE m1
      \* success only after everything journalled before the flush call is written and synced after the write
      m3 == IF e.ok /\ ~DurableThrough(m2, 0, f.end)
            THEN ViolKeep(m2, "C04", "ack_before_durable", e,
                          [fid |-> e.fid, end |-> f.end, files |-> UndurableFiles(m2, 0, f.end),
                           sync_failed |-> {m2.files[x].ck : x \in {y \in 1..Len(m2.files) : m2.files[y].sf}}])
            ELSE m2
      m4 == [m3 EXCEPT !.fl[j].st = IF e.ok THEN "ok" ELSE "err",
                       !.acked = IF e.ok /\ f.inst = m3.inst THEN Max2(@, f.n) ELSE @]
      \* reference states below the acknowledged prefix can never be a legal recovery result again: drop them
      m5 == IF m4.acked > m4.vbase
            THEN [m4 EXCEPT !.views = SubSeq(@, m4.acked - m4.vbase + 1, Len(@)), !.vbase = m4.acked]
            ELSE m4
  IN m5

-----------------------------------------------------------------------------
(* observation compare *)

ObsView(o) == [st |-> o.st, es |-> o.es]
RefView(r) == [st |-> RefSt(r), es |-> r.log]

PreOf(o) == [st |-> o.st, es |-> o.es, cn |-> o.cache.n, csz |-> o.cache.sz, ev |-> o.cache.sev]

\* C15: counters equal the resident set
CacheExact(o) == /\ o.cache.n = Len(o.cache.res)
                 /\ o.cache.sz = SumSeq([k \in 1..Len(o.cache.res) |-> o.cache.res[k][3]])
                 /\ o.cache.sn = o.cache.n /\ o.cache.ssz = o.cache.sz

OverLimit(m, o) == (m.cfg.ci >= 0 /\ o.cache.n > m.cfg.ci) \/ (m.cfg.cc >= 0 /\ o.cache.sz > m.cfg.cc)
ResidentAtOrBelow(o, b) == {k \in 1..Len(o.cache.res) : Le(<<o.cache.res[k][1], o.cache.res[k][2]>>, b)}

CheckCache(m, e, o, afterAppend) ==
  IF ~CacheExact(o)
  THEN ViolKeep(m, "C15", "cache_counters_inexact", e,
                [n |-> o.cache.n, sz |-> o.cache.sz, res |-> o.cache.res])
  ELSE IF afterAppend /\ ~m.evmoved /\ OverLimit(m, o) /\ ResidentAtOrBelow(o, o.cache.sev) # {}
       THEN ViolKeep(m, "C15", "over_limit_with_evictable", e,
                     [n |-> o.cache.n, sz |-> o.cache.sz, ev |-> o.cache.sev, res |-> o.cache.res])
       ELSE m

\* Known finding F5 (see known_findings.json): a live entry that was journalled AFTER some chunk had been
\* closed with closing-time last B nevertheless compares <= B (possible only after a truncation followed by a
\* re-append with the same or a lower term).  B becomes the eviction boundary once that chunk is synced, so
\* the entry is evictable although it is not in a synced closed chunk.  The boundary in force when the entry
\* was evicted need not be the one at observation time (the worker moves it), hence every closing-time last
\* is considered, not only `sev`.
F5Class(m, sev) ==
  /\ m.sizeok
  /\ \E k \in 1..Len(m.heads) : \E j \in 1..Len(m.loc) :
        /\ m.heads[k].st.l # None
        /\ m.loc[j].off >= m.heads[k].ck /\ HasIdx(m.ref, m.loc[j].i)
        /\ Le(IdAt(m.ref, m.loc[j].i), m.heads[k].st.l)

\* F5 on a store recovered from a crash: the write in progress when the machine died (an append whose call had
\* not returned, so its entries are not in `loc` yet) is the newest part of the journal; if it made it into the
\* image, its entries are live, journalled after every closed chunk, and evictable when they compare <= a
\* closing-time last (re-append after a truncation, same or lower id).
F5Pending(m) ==
  /\ m.pend.op = "append"
  /\ \E k \in 1..Len(m.heads) : \E j \in 1..Len(m.pend.args.es) :
        m.heads[k].st.l # None /\ Le(EId(m.pend.args.es[j]), m.heads[k].st.l)

\* which property a wrong read / state speaks about, by context
ReadProp(m) ==
  IF m.cfg.ci >= 0 \/ m.cfg.cc >= 0 \/ m.wactive THEN "C07"
  ELSE IF m.rejSeen THEN "C06"
  ELSE "C01"

CheckView(m, e, o, prop) ==
  IF o.esr # "ok"
  THEN Viol(m, IF prop \in {"C01", "C06"} THEN ReadProp(m) ELSE prop, "read_error", e,
            [esr |-> o.esr, want |-> m.ref.log, f5 |-> F5Class(m, o.cache.sev)])
  ELSE IF o.st # RefSt(m.ref)
  THEN Viol(m, prop, "state_mismatch", e, [got |-> o.st, want |-> RefSt(m.ref)])
  ELSE IF o.es # m.ref.log
  THEN Viol(m, IF prop \in {"C01", "C06"} THEN ReadProp(m) ELSE prop, "entries_mismatch", e,
            [got |-> o.es, want |-> m.ref.log, f5 |-> F5Class(m, o.cache.sev)])
  ELSE m

-----------------------------------------------------------------------------
(* journal bookkeeping at an accepted write *)

RecOf(m, op, a, rAfter) ==
  CASE op = "vote"     -> [k |-> "vote", v |-> a.v]
    [] op = "truncate" -> [k |-> "trunc", id |-> TruncLid(m.ref, a.i)]
    [] op = "purge"    -> [k |-> "purge", id |-> a.id]
    [] op = "commit"   -> [k |-> "commit", id |-> a.id]
    [] op = "userdata" -> [k |-> "state", st |-> RefSt(rAfter)]
    [] OTHER           -> [k |-> "?"]

\* offsets of the n accepted entries of an append that starts at journal offset `start`,
\* given the chunks created during the call (each creation inserts a head snapshot)
RECURSIVE PlaceEntries(_, _, _, _, _)
PlaceEntries(r, es, off, newcks, ul) ==
  IF es = <<>> THEN <<>>
  ELSE LET e == es[1]
           r2 == AppendOne(r, e)
           end == off + AppSize(e)
           next == IF end \in newcks THEN end + StateSize(RefSt(r2), ul) ELSE end
       IN <<[off |-> off, sz |-> AppSize(e), rec |-> [k |-> "app", id |-> EId(e), p |-> <<e[3], e[4]>>], i |-> e[2],
             st |-> RefSt(r2)]>>
          \o PlaceEntries(r2, Tail(es), next, newcks, ul)

\* chunks that have just become obsolete (closed, no live entry stored in them)
MarkObsolete(m) ==
  LET cks == KnownCks(m)
      newest == IF cks = {} THEN -1 ELSE SetMax(cks)
      cand == {c \in cks : c # newest /\ ~\E o \in {m.obsolete[x] : x \in 1..Len(m.obsolete)} : o.ck = c}
      now == {c \in cand : LiveIn(m, c, NextCk(m, c, m.jend)) = {}}
      RECURSIVE AddAll(_, _)
      AddAll(S, acc) == IF S = {} THEN acc
                        ELSE LET c == SetMin(S) IN AddAll(S \ {c}, Append(acc, [ck |-> c, at |-> m.jend]))
  IN [m EXCEPT !.obsolete = AddAll(now, @)]

HeadOf(m, ck) == LET S == SelectSeq(m.heads, LAMBDA h : h.ck = ck) IN IF S = <<>> THEN [ck |-> -1] ELSE S[1]

\* closed chunks (all but the newest), oldest first, with their closing-time `last`
ClosedWithLast(m) ==
  LET cks == KnownCks(m) \cap LinkedCks(m)
      RECURSIVE Go(_)
      Go(S) == IF Cardinality(S) <= 1 THEN <<>>
               ELSE LET c == SetMin(S) n == SetMin(S \ {c}) h == HeadOf(m, n)
                    IN <<[ck |-> c, last |-> IF h.ck = -1 THEN <<BIG, BIG>> ELSE h.st.l]>> \o Go(S \ {c})
  IN Go(cks)

\* C08 narrow reading: the oldest closed chunks whose closing-time last <= upto must go
RECURSIVE ObligPrefix(_, _)
ObligPrefix(cl, upto) ==
  IF cl = <<>> THEN <<>>
  ELSE IF Le(cl[1].last, upto) THEN <<cl[1].ck>> \o ObligPrefix(Tail(cl), upto) ELSE <<>>

-----------------------------------------------------------------------------
(* API call begin / return *)

AtLimit(x) == x >= BIG - 1000
ArgBig(op, a) ==
  CASE op = "vote"     -> AtLimit(a.v[1]) \/ AtLimit(a.v[2])
    [] op = "append"   -> \E k \in 1..Len(a.es) : AtLimit(a.es[k][1]) \/ AtLimit(a.es[k][2])
    [] op = "truncate" -> AtLimit(a.i)
    [] op \in {"purge", "commit"} -> AtLimit(a.id[1]) \/ AtLimit(a.id[2])
    [] OTHER -> FALSE

BeginStep(m, e) ==
  [m EXCEPT !.pend = [op |-> e.op, args |-> e.args], !.newck = <<>>, !.evmoved = m.evfly,
            !.bigSeen = @ \/ ArgBig(e.op, e.args)]

\* rotation rule (C11): after an accepted write the open chunk is below both limits or is a bare head
RotationOk(m, o) ==
  LET c == o.chunks[Len(o.chunks)] IN
  \/ c[2] <= 1
  \/ /\ (m.cfg.mr < 0 \/ c[2] < m.cfg.mr)
     /\ (m.cfg.ms < 0 \/ c[4] - c[3] < m.cfg.ms)

WriteReturn(m0, e) ==
  LET op == m0.pend.op
      a  == m0.pend.args
      m  == Cnt(m0, "calls")
      x  == RefApply(m.ref, op, a)
      rc == e.rc
  IN
  IF rc = "panic" THEN Viol(m, "C16", "panic", e, [op |-> op, args |-> a, res |-> e.res, at_integer_limit |-> m.bigSeen])
  ELSE IF ~x.legal THEN [Note(m, "outside_legal_history", e) EXCEPT !.tainted = TRUE]
  ELSE IF rc = "ok" /\ ~x.ok /\ op # "append"
       THEN [Note(m, "accepted_what_ref_rejects", e) EXCEPT !.tainted = TRUE]
  ELSE IF rc = "ok" /\ ~x.ok /\ op = "append"
       THEN [Note(m, "accepted_what_ref_rejects", e) EXCEPT !.tainted = TRUE]
  ELSE IF rc = "err" /\ x.ok
       THEN IF m.faulted \/ e.cls = "chan_closed"
            THEN [Note(m, "io_error_after_fault", e) EXCEPT !.tainted = TRUE]
            ELSE Viol(m, "C01", "legal_write_refused", e, [op |-> op, args |-> a, res |-> e.res])
  ELSE
  LET o == e.obs
      purgeNoop == op = "purge" /\ PurgeNoop(m.ref, a.id)
      \* number of records journalled by this call
      nacc1 == IF op = "append" THEN AppendSeq(m.ref, a.es).n
               ELSE IF x.ok /\ ~purgeNoop THEN 1 ELSE 0
      ref1 == x.st
      ul == IF op = "userdata" THEN a.ul ELSE m.ulen
      placed == IF op = "append"
                THEN PlaceEntries(m.ref, SubSeq(a.es, 1, nacc1), m.jend, {m.newck[k] : k \in 1..Len(m.newck)}, ul)
                ELSE IF nacc1 = 1
                     THEN <<[off |-> e.seg[1], sz |-> e.seg[2], rec |-> RecOf(m, op, a, ref1), i |-> -1, st |-> RefSt(ref1)]>>
                     ELSE <<>>
      openc == o.chunks[Len(o.chunks)]
      jend1 == IF nacc1 = 0 THEN m.jend ELSE openc[4]
      \* views after each journalled record (for the crash-prefix check)
      RECURSIVE Views(_, _)
      Views(r, es) == IF es = <<>> THEN <<>> ELSE LET r2 == AppendOne(r, es[1]) IN <<r2>> \o Views(r2, Tail(es))
      newviews == IF op = "append" THEN Views(m.ref, SubSeq(a.es, 1, nacc1))
                  ELSE IF nacc1 = 1 THEN <<ref1>> ELSE <<>>
      \* live-entry locations
      loc1 == LET kept == SelectSeq(m.loc, LAMBDA l : HasIdx(ref1, l.i) /\
                                     ~\E q \in 1..Len(placed) : placed[q].i = l.i)
                  added == [q \in 1..Len(placed) |-> [i |-> placed[q].i, off |-> placed[q].off]]
              IN IF op = "append" THEN kept \o SelectSeq(added, LAMBDA l : HasIdx(ref1, l.i)) ELSE kept
      \* the head snapshot of a chunk started during this call = the state after the record that filled the old one
      headSt(c) == LET S == {q \in 1..Len(placed) : placed[q].off + placed[q].sz = c}
                   IN IF S = {} THEN RefSt(ref1) ELSE placed[SetMin(S)].st
      heads1 == m.heads \o [k \in 1..Len(m.newck) |-> [ck |-> m.newck[k], st |-> headSt(m.newck[k]),
                                                          ul |-> IF op = "userdata" /\ rc = "ok" THEN a.ul ELSE m.ulen]]
      mA == [m EXCEPT !.ref = ref1, !.nacc = @ + nacc1, !.views = @ \o newviews,
                      !.jr = @ \o [q \in 1..Len(placed) |-> [off |-> placed[q].off, sz |-> placed[q].sz, rec |-> placed[q].rec]],
                      !.jend = jend1, !.loc = loc1, !.heads = heads1, !.newck = <<>>,
                      !.pend = NoPend, !.pre = PreOf(o), !.ulen = IF op = "userdata" /\ rc = "ok" THEN a.ul ELSE @,
                      !.rejSeen = @ \/ (rc = "err"),
                      !.out.cnt.accepted = @ + (IF rc = "ok" THEN 1 ELSE 0),
                      !.out.cnt.rejected = @ + (IF rc = "err" THEN 1 ELSE 0)]
      \* --- C06: a refused write changes nothing
      mB == IF rc = "err" /\ nacc1 = 0 /\ PreOf(o) # [m.pre EXCEPT !.ev = o.cache.sev]
            THEN Viol(mA, "C06", "rejected_write_left_trace", e, [op |-> op, args |-> a, before |-> m.pre, after |-> PreOf(o)])
            ELSE mA
      \* --- C01 (or C06/C07 by context): state and entries equal the reference
      mC == IF mB.tainted THEN mB ELSE CheckView(mB, e, o, IF mB.rejSeen THEN "C06" ELSE "C01")
      \* --- C11: returned segment = where the record is; chunk names = global offsets; rotation rule
      lastp == IF placed = <<>> THEN [off |-> 0, sz |-> 0] ELSE placed[Len(placed)]
      newcks == {m.newck[k] : k \in 1..Len(m.newck)}
      recEnd == lastp.off + lastp.sz
      headSz == IF recEnd \in newcks THEN StateSize(RefSt(ref1), mA.ulen) ELSE 0
      mD == IF mC.tainted \/ rc # "ok" \/ nacc1 = 0 THEN mC
            ELSE IF op = "append" /\ jend1 # recEnd + headSz
                 THEN [Note(mC, "size_model_mismatch", e) EXCEPT !.sizeok = FALSE]
            ELSE IF e.seg # <<lastp.off, lastp.sz>> \/ e.seg[1] < m.jend
                 THEN ViolKeep(mC, "C11", "segment_not_where_record_is", e,
                               [seg |-> e.seg, record_at |-> <<lastp.off, lastp.sz>>, jend |-> m.jend])
            ELSE IF op # "append" /\ e.seg[1] # m.jend
                 THEN ViolKeep(mC, "C11", "segment_not_at_journal_end", e, [seg |-> e.seg, jend |-> m.jend])
            ELSE IF ~(newcks \subseteq {placed[q].off + placed[q].sz : q \in 1..Len(placed)})
                 THEN ViolKeep(mC, "C11", "chunk_name_is_not_its_global_offset", e, [newck |-> m.newck, end |-> recEnd])
            ELSE IF Len(m.newck) = 0 /\ jend1 # recEnd
                 THEN ViolKeep(mC, "C11", "journal_end_not_after_record", e, [seg |-> e.seg, end |-> jend1])
            ELSE IF ~RotationOk(mC, o)
                 THEN ViolKeep(mC, "C11", "full_chunk_not_closed", e, [open |-> openc, cfg |-> mC.cfg])
            ELSE mC
      \* --- C15
      mE == CheckCache(mD, e, o, op = "append" /\ rc = "ok")
      \* --- C08 bookkeeping: obsolete chunks, obligations of this purge
      mF == IF mE.sizeok THEN MarkObsolete(mE) ELSE mE
      mG == IF op = "purge" /\ rc = "ok" /\ ~purgeNoop
            THEN LET ob == ObligPrefix(ClosedWithLast(mF), a.id)
                 IN [mF EXCEPT !.oblig = @ \o [k \in 1..Len(ob) |-> [ck |-> ob[k], n |-> mF.nacc]]]
            ELSE mF
  IN mG

\* F4's signature: some file of the image is shorter (damaged tail, or fewer bytes) than the name of the NEXT
\* CHUNK EVER CREATED accounts for -- the successor existed before the predecessor's tail was durable.
ShortPred(m, img) ==
  \E k \in 1..(Len(img) - 1) : img[k][4] # "none" \/ img[k][1] + img[k][2] + img[k][3] < img[k + 1][1]
\* not F4: a chunk that was created between two files of the image is absent from it (files were not
\* removed oldest-first, or a middle file vanished)
Hole(m, img) ==
  \E k \in 1..(Len(img) - 1) : \E c \in KnownCks(m) : img[k][1] < c /\ c < img[k + 1][1]

OpenReturn(m0, e) ==
  LET m == Cnt(m0, "opens")
      rc == e.rc
      wasCrash == m.crashed
      first == m.inst = 0
  IN
  IF rc = "panic"
  THEN Viol(m, IF wasCrash THEN "C05" ELSE IF first THEN "C16" ELSE "C02", "open_panic", e, [res |-> e.res, dir |-> e.dir])
  ELSE IF rc = "err"
  THEN IF wasCrash /\ ~m.pend.args.tr /\ \E k \in 1..Len(m.img) : m.img[k][4] # "none"
       THEN \* tail truncation is disabled and the image holds an incomplete / zero tail: refusing is the
            \* configured behaviour (C10), not a recoverability failure
            [Note(m, "refused_tail_truncation_disabled", e) EXCEPT !.tainted = TRUE]
       ELSE IF wasCrash
       THEN \* known finding F4 is identified narrowly: the store refuses with "gap" and in the image some file is
            \* shorter than the name of its successor accounts for (the successor was created before the
            \* predecessor's tail was written/durable)
            Viol(m, "C05", "open_failed_after_crash", e,
                 [res |-> e.res, cls |-> e.cls, dir |-> e.dir, img |-> m.img,
                  short_pred |-> ShortPred(m, m.img), hole |-> Hole(m, m.img)])
       ELSE IF m.faulted THEN [Note(m, "open_failed_after_fault", e) EXCEPT !.tainted = TRUE]
       ELSE Viol(m, IF m.rejSeen THEN "C06" ELSE "C02", "open_failed", e, [res |-> e.res, dir |-> e.dir])
  ELSE
  LET o == e.obs
      \* (removals are scheduled in memory by the instance that purged: its obligations end with it)
      m1 == [m EXCEPT !.open = TRUE, !.inst = @ + 1, !.cfg = m.pend.args, !.nacc0 = m.nacc, !.unlocked = FALSE, !.oblig = <<>>,
                      !.wl = Append(@, [label |-> e.wl, inst |-> m.inst + 1, dropped |-> FALSE, acked |-> FALSE]),
                      !.pend = NoPend, !.pre = PreOf(o), !.wactive = FALSE, !.dropAcked = FALSE]
      openc == o.chunks[Len(o.chunks)]
  IN
  IF wasCrash
  THEN \* C03: the recovered view is the view after some prefix k >= acked of the issued writes
       LET ks == {k \in m.acked..m.nacc : k >= m.vbase /\ RefView(m.views[k - m.vbase + 1]) = ObsView(o)}
           \* a write in progress when the machine died may also have made it
       IN IF o.esr # "ok" THEN Viol(m1, "C03", "read_error_after_recovery", e, [esr |-> o.esr])
          ELSE IF ks = {}
          THEN Viol(m1, "C03", "recovered_state_is_no_acked_prefix", e,
                    [got |-> ObsView(o), acked |-> m.acked, nacc |-> m.nacc,
                     lost_acked |-> \E k \in m.vbase..(m.acked - 1) : RefView(m.views[k - m.vbase + 1]) = ObsView(o)])
          ELSE LET k == SetMax(ks)
                   m2 == [m1 EXCEPT !.ref = m.views[k - m.vbase + 1], !.nacc = k,
                                    !.views = SubSeq(@, 1, k - m.vbase + 1),
                                    !.jr = <<>>, !.loc = <<>>, !.heads = <<>>, !.obsolete = <<>>, !.oblig = <<>>,
                                    !.sizeok = FALSE,        \* offsets of the surviving records are not re-derived
                                    !.jend = openc[4], !.acked = Min2(@, k), !.crashed = FALSE,
                                    !.fl = <<>>, !.rejSeen = FALSE]
               IN m2
  ELSE
  \* clean (re)open: C02 — same state, same entries, provided every write was flushed and acknowledged.
  \* Otherwise the drop discarded unflushed writes: no property speaks about that; resynchronise on the
  \* surviving prefix if there is one, else stop judging this run.
  LET m2 == [m1 EXCEPT !.jend = openc[4]]
      ks == {k \in m.acked..m.nacc : k >= m.vbase /\ RefView(m.views[k - m.vbase + 1]) = ObsView(o)}
      m3 == IF first THEN m2
            ELSE IF m.dropAcked THEN CheckView(m2, e, o, IF m2.rejSeen THEN "C06" ELSE "C02")
            ELSE IF o.esr = "ok" /\ ks # {}
                 THEN LET k == SetMax(ks) IN
                      IF k = m.nacc
                      THEN \* nothing was lost (everything journalled had been handed over and written): the
                           \* bookkeeping of the journal stays valid
                           Note(m2, "unflushed_drop", e)
                      ELSE [Note(m2, "unflushed_drop", e) EXCEPT !.ref = m.views[k - m.vbase + 1], !.nacc = k,
                             !.views = SubSeq(@, 1, k - m.vbase + 1), !.jr = <<>>, !.loc = <<>>, !.sizeok = FALSE,
                             !.obsolete = <<>>, !.oblig = <<>>]
                 ELSE [Note(m2, "unflushed_drop_unexplained", e) EXCEPT !.tainted = TRUE]
      \* a head snapshot created by this open carries the recovered state
      m4 == [m3 EXCEPT !.heads = @ \o [k \in 1..Len(m.newck) |-> [ck |-> m.newck[k], st |-> RefSt(m.ref), ul |-> m.ulen]],
                       !.newck = <<>>]
  IN CheckCache(m4, e, o, FALSE)

DropReturn(m, e) ==
  LET allAcked == \A k \in 1..Len(m.fl) : (m.fl[k].inst = m.inst /\ m.fl[k].cb) => m.fl[k].st = "ok"
      flushedAll == \E k \in 1..Len(m.fl) : m.fl[k].inst = m.inst /\ m.fl[k].n = m.nacc /\ m.fl[k].st = "ok"
  IN [m EXCEPT !.open = FALSE, !.pend = NoPend,
               !.wl = [k \in 1..Len(@) |-> IF @[k].inst = m.inst
                                            THEN [@[k] EXCEPT !.dropped = TRUE, !.acked = allAcked /\ (flushedAll \/ m.nacc = m.nacc0)]
                                            ELSE @[k]],
               !.dropAcked = allAcked /\ (flushedAll \/ m.nacc = m.nacc0)]

FlushReturn(m0, e) ==
  LET m == Cnt(m0, "calls")
      a == m.pend.args
  IN IF e.rc = "panic" THEN Viol(m, "C16", "panic", e, [op |-> "flush"])
     ELSE IF e.rc = "err"
          THEN IF m.faulted THEN [Note(m, "flush_error_after_fault", e) EXCEPT !.pend = NoPend]
               ELSE Viol(m, "C14", "flush_refused", e, [res |-> e.res, inst |-> m.inst])
     ELSE [m EXCEPT !.pend = NoPend]

\* the flush is registered when the call BEGINS: everything the caller journalled before it is covered
FlushBegin(m, e) ==
  [m EXCEPT !.pend = [op |-> "flush", args |-> e.args],
            !.fl = Append(@, [fid |-> e.args.fid, n |-> m.nacc, end |-> m.jend, st |-> "wait",
                              inst |-> m.inst, cb |-> e.args.cb])]

ReturnStep(m, e) ==
  CASE e.op = "open"  -> OpenReturn(m, e)
    [] e.op = "drop"  -> DropReturn(m, e)
    [] e.op = "flush" -> FlushReturn(m, e)
    [] OTHER          -> WriteReturn(m, e)

-----------------------------------------------------------------------------
(* reads, iteration, dump, idle, drain *)

ReadStep(m0, e) ==
  LET m == Cnt(m0, "reads") IN
  IF e.rc = "panic" THEN Viol(m, "C16", "panic", e, [op |-> "read", from |-> e.from, to |-> e.to, res |-> e.res, at_integer_limit |-> m.bigSeen])
  ELSE IF e.from > e.to /\ e.rc = "ok" /\ e.es = <<>> THEN m
  ELSE IF e.rc # "ok" THEN Viol(m, ReadProp(m), "read_error", e, [from |-> e.from, to |-> e.to, res |-> e.res, f5 |-> F5Class(m, m.pre.ev)])
  ELSE IF e.es # Read(m.ref, e.from, e.to)
       THEN Viol(m, ReadProp(m), "read_mismatch", e, [from |-> e.from, to |-> e.to, got |-> e.es, want |-> Read(m.ref, e.from, e.to), f5 |-> F5Class(m, m.pre.ev)])
       ELSE m

IterStep(m0, e) ==
  LET m == Cnt(m0, "reads") IN
  IF e.rc = "panic" THEN Viol(m, "C16", "panic", e, [op |-> "iter"])
  ELSE IF e.rc # "ok" THEN Viol(m, "C07", "iter_error", e, [res |-> e.res, f5 |-> F5Class(m, m.pre.ev)])
  ELSE IF e.es # m.ref.log \/ e.st # RefSt(m.ref)
       THEN Viol(m, "C07", "iter_mismatch", e, [got |-> e.es, want |-> m.ref.log, f5 |-> F5Class(m, m.pre.ev)])
       ELSE m

\* C11: the files, read in name order, are head snapshots plus the accepted writes in call order
DumpStep(m0, e) ==
  LET m == Cnt(m0, "dumps")
      D == e.recs
      n == Len(D)
      isHead(k) == D[k][2] = 0
      body == SelectSeq([k \in 1..n |-> [g |-> D[k][1] + D[k][3], sz |-> D[k][4], rec |-> D[k][5], h |-> D[k][2] = 0, ck |-> D[k][1]]],
                        LAMBDA x : ~x.h)
      nb == Len(body)
      want == IF nb <= Len(m.jr) THEN SubSeq(m.jr, Len(m.jr) - nb + 1, Len(m.jr)) ELSE <<>>
      contiguous == \A k \in 1..n :
                      /\ (D[k][2] = 0 => D[k][3] = 0)
                      /\ (k < n => IF D[k+1][1] = D[k][1]
                                   THEN D[k+1][3] = D[k][3] + D[k][4] /\ D[k+1][2] = D[k][2] + 1
                                   ELSE D[k+1][1] = D[k][1] + D[k][3] + D[k][4] /\ D[k+1][2] = 0)
      headsOk == \A k \in 1..n : isHead(k) =>
                    /\ D[k][5].k = "state"
                    /\ LET h == HeadOf(m, D[k][1]) IN h.ck = -1 \/ h.st = D[k][5].st
      names == {D[k][1] : k \in 1..n}
      listed == {e.dir[k][1] : k \in 1..Len(e.dir)}
  IN
  IF e.rc # "ok" THEN ViolKeep(m, "C11", "dump_failed", e, [res |-> e.res])
  ELSE IF n = 0 THEN ViolKeep(m, "C11", "dump_empty", e, [dir |-> e.dir])
  ELSE IF ~contiguous THEN ViolKeep(m, "C11", "files_do_not_abut", e, [recs |-> D])
  ELSE IF names # listed THEN ViolKeep(m, "C11", "dump_vs_directory", e, [names |-> names, dir |-> e.dir])
  ELSE IF ~headsOk THEN ViolKeep(m, "C11", "head_snapshot_wrong", e, [recs |-> D, heads |-> m.heads])
  ELSE IF D[n][1] + D[n][3] + D[n][4] # m.jend /\ ~m.wactive
       THEN ViolKeep(m, "C11", "journal_end_mismatch", e, [last |-> D[n], jend |-> m.jend])
  ELSE IF m.sizeok /\ nb > Len(m.jr)
       THEN ViolKeep(m, "C11", "more_records_than_writes", e, [recs |-> D])
  ELSE IF m.sizeok /\ \E k \in 1..nb : body[k].rec # want[k].rec \/ body[k].g # want[k].off \/ body[k].sz # want[k].sz
       THEN ViolKeep(m, "C11", "journal_record_mismatch", e,
                     [k |-> CHOOSE k \in 1..nb : body[k].rec # want[k].rec \/ body[k].g # want[k].off \/ body[k].sz # want[k].sz,
                      got |-> body, want |-> want])
  ELSE m

IdleStep(m0, e) ==
  LET m == [Cnt(m0, "idle") EXCEPT !.wactive = FALSE]
      o == e.obs
      mine == {k \in 1..Len(m.fl) : m.fl[k].inst = m.inst}
      \* never invoked: still pending at an idle point, or dropped without having been invoked
      waiting == {k \in mine : m.fl[k].cb /\ m.fl[k].st \in {"wait", "dropped"}}
      flushedN == IF {k \in mine : m.fl[k].st = "ok"} = {} THEN -1
                  ELSE SetMax({m.fl[k].n : k \in {x \in mine : m.fl[x].st = "ok"}})
      mustGo == {m.oblig[k].ck : k \in {x \in 1..Len(m.oblig) : m.oblig[x].n <= flushedN}}
      still == mustGo \cap LinkedCks(m)
      openc == o.chunks[Len(o.chunks)]
      listed == {o.dir[k][1] : k \in 1..Len(o.dir)}
  IN
  IF e.res # "ok" THEN IF m.faulted THEN m ELSE Viol(m, "C14", "worker_dead_or_stuck", e, [res |-> e.res])
  ELSE IF ~m.faulted /\ \E k \in 1..Len(o.dir) :
                          LET j == FileIdx(m, o.dir[k][1]) IN j # 0 /\ m.files[j].linked /\ m.files[j].w # o.dir[k][2]
  THEN \* the directory holds bytes the interposed calls do not account for: the code reached the disk by a path
       \* the shim does not see.  Not a verdict on the code: stop judging (the check reports a tool error).
       [Note(m, "unobserved_fs_path", e) EXCEPT !.tainted = TRUE]
  ELSE
  LET \* C04: exactly once when no I/O error occurs
      m1 == IF ~m.faulted /\ waiting # {}
            THEN ViolKeep(m, "C04", "ack_missing_at_idle", e, [fids |-> {m.fl[k].fid : k \in waiting}])
            ELSE m
      \* C08: obsolete chunks are gone once the purge is flushed and the worker idle
      m2 == IF ~m1.faulted /\ still # {}
            THEN ViolKeep(m1, "C08", "obsolete_chunk_not_removed", e, [cks |-> still, dir |-> o.dir])
            ELSE m1
      \* C11: reported on-disk size = oldest retained chunk .. journal end
      \* (the property speaks of the state after flush and worker idle: nothing is scheduled for removal)
      m3 == IF ~m2.faulted /\ flushedN = m2.nacc /\ listed # {} /\ o.ods # openc[4] - SetMin(listed)
            THEN ViolKeep(m2, "C11", "on_disk_size_wrong", e, [ods |-> o.ods, end |-> openc[4], dir |-> o.dir])
            ELSE m2
      \* C08: the files that remain form a gap-free suffix (names abut by size)
      m4 == IF ~m3.faulted /\ \E k \in 1..(Len(o.dir) - 1) : o.dir[k][1] + o.dir[k][2] # o.dir[k+1][1]
            THEN ViolKeep(m3, "C08", "remaining_files_not_gap_free", e, [dir |-> o.dir])
            ELSE m3
      m5 == IF m4.tainted THEN m4 ELSE CheckView(m4, e, o, IF m4.rejSeen THEN "C06" ELSE "C01")
  IN CheckCache(m5, e, o, FALSE)

DrainStep(m, e) ==
  LET o == e.obs IN
  IF ResidentAtOrBelow(o, o.cache.sev) # {}
  THEN ViolKeep(m, "C15", "evictable_resident_after_drain", e, [ev |-> o.cache.sev, res |-> o.cache.res])
  ELSE CheckCache(m, e, o, FALSE)

ObsStep(m0, e) ==
  LET m == Cnt(m0, "obs") IN
  IF m.tainted THEN m ELSE CheckCache(CheckView(m, e, e.obs, "C07"), e, e.obs, FALSE)

LockTryStep(m0, e) ==
  LET m == Cnt(m0, "locktries") IN
  IF e.owned /\ e.rc = "ok" THEN ViolKeep(m, "C13", "second_owner_admitted", e, [kind |-> e.kind])
  ELSE IF e.owned /\ e.rc = "panic" THEN ViolKeep(m, "C13", "contender_panicked", e, [kind |-> e.kind])
  ELSE IF e.owned /\ ~e.same THEN ViolKeep(m, "C13", "refused_contender_modified_files", e, [kind |-> e.kind])
  ELSE IF ~e.owned /\ e.rc # "ok" /\ ~m.faulted THEN ViolKeep(m, "C13", "free_directory_refused", e, [kind |-> e.kind, res |-> e.res])
  ELSE m

\* the `set_ev` point is logged BEFORE the boundary is assigned; the assignment is certainly over when the
\* same worker is seen at its next FS call or point
\* C13 schedules: contenders (threads or child processes, RaftLog::open or Dump::new) open and drop the directory
LkStep(m0, e) ==
  LET m == Cnt(m0, "locktries") IN
  IF e.op = "drop" THEN [m EXCEPT !.owners = @ \ {e.c}]
  ELSE IF e.rc = "panic" THEN ViolKeep(m, "C13", "contender_panicked", e, [c |-> e.c, kind |-> e.kind, res |-> e.res])
  ELSE IF e.rc = "ok"
       THEN IF m.owners # {}
            THEN ViolKeep([m EXCEPT !.owners = @ \cup {e.c}], "C13", "second_owner_admitted", e,
                          [c |-> e.c, kind |-> e.kind, proc |-> e.proc, owners |-> m.owners])
            ELSE [m EXCEPT !.owners = {e.c}]
  ELSE IF "race" \in DOMAIN e THEN m    \* a losing attempt of a real race is logged late: nothing can be concluded from it
  ELSE IF m.owners = {} THEN ViolKeep(m, "C13", "free_directory_refused", e, [c |-> e.c, kind |-> e.kind, proc |-> e.proc, res |-> e.res])
  ELSE IF ~e.same THEN ViolKeep(m, "C13", "refused_contender_modified_files", e, [c |-> e.c, kind |-> e.kind, proc |-> e.proc])
  ELSE m

\* k child processes attempted at the same moment: at most one may have been admitted; when nobody held the
\* directory exactly one must have been; when it was held none, and nothing may have been modified
LkRaceStep(m0, e) ==
  LET m == Cnt(m0, "locktries") IN
  IF e.oks > 1 THEN ViolKeep(m, "C13", "second_owner_admitted", e, [c |-> 0, kind |-> "race", proc |-> "child", owners |-> e.results])
  ELSE IF e.owned /\ e.oks > 0 THEN ViolKeep(m, "C13", "second_owner_admitted", e, [c |-> 0, kind |-> "race", proc |-> "child", owners |-> e.results])
  ELSE IF e.owned /\ ~e.same THEN ViolKeep(m, "C13", "refused_contender_modified_files", e, [c |-> 0, kind |-> "race", proc |-> "child"])
  ELSE IF ~e.owned /\ e.oks = 0 THEN ViolKeep(m, "C13", "free_directory_refused", e, [c |-> 0, kind |-> "race", proc |-> "child", res |-> e.results])
  ELSE m

PtStep(m, e) ==
  IF e.p = "set_ev" THEN [m EXCEPT !.evmoved = TRUE, !.evfly = TRUE, !.wactive = TRUE]
  ELSE [m EXCEPT !.wactive = TRUE, !.evfly = FALSE]

\* C14/C13: the directory lock is the last thing a store lets go of; once it is released (another process may
\* open the directory from that moment on) the store's own worker must not change the directory any more
FsAfterUnlock(m, e) ==
  /\ m.unlocked /\ e.t # "c"
  /\ e.call \in {"write", "unlink", "creat", "ftruncate"}
  /\ \E k \in 1..Len(m.wl) : m.wl[k].label = e.t /\ m.wl[k].inst = m.inst

\* C14: after the acknowledged drop nothing changes the directory any more
FsAfterDrop(m, e) ==
  /\ e.t # "c"
  /\ e.call \in {"write", "unlink", "creat", "ftruncate"}
  /\ \E k \in 1..Len(m.wl) : m.wl[k].label = e.t /\ m.wl[k].dropped /\ m.wl[k].acked

CrashStep(m, e) ==
  \* the directory is now the image described by e.img: [ck, keep, zeros, tail, synced, written]
  LET bad == {k \in 1..Len(e.img) : e.img[k][2] < e.img[k][5] \/ e.img[k][2] > e.img[k][6]}
      m1 == [Cnt(m, "crashes") EXCEPT !.crashed = TRUE, !.open = FALSE, !.pend = NoPend, !.img = e.img,
                 !.files = [k \in 1..Len(e.img) |-> [ck |-> e.img[k][1], w |-> e.img[k][2] + e.img[k][3],
                                                    d |-> e.img[k][2] + e.img[k][3], linked |-> TRUE, sf |-> FALSE]],
                 !.wl = [k \in 1..Len(@) |-> [@[k] EXCEPT !.dropped = TRUE]], !.dropAcked = FALSE]
  IN IF bad # {} THEN [Note(m1, "image_outside_crash_model", e) EXCEPT !.tainted = TRUE] ELSE m1

-----------------------------------------------------------------------------
(* Crash probes (branch events): the harness materialised the image e.img of the directory as it was   *)
(* right after the preceding FS event, opened it with the real RaftLog::open, continued and reopened.   *)
(* The main-line state is not changed.                                                                   *)

\* the image is one the crash model allows, judged by the monitor's OWN extents:
\* every linked file is present and keeps at least its durable and at most its written bytes
ImageAllowed(m, img) ==
  /\ {img[k][1] : k \in 1..Len(img)} = LinkedCks(m)
  /\ \A k \in 1..Len(img) :
        LET j == FileIdx(m, img[k][1]) IN
        j # 0 /\ img[k][2] >= m.files[j].d /\ img[k][2] <= m.files[j].w

\* reference states the write in progress (if any) may have produced: each prefix of its records
PendingViews(m) ==
  IF m.pend.op \in {"vote", "truncate", "purge", "commit", "userdata"}
  THEN LET x == RefApply(m.ref, m.pend.op, m.pend.args) IN IF x.ok /\ x.legal THEN {RefView(x.st)} ELSE {}
  ELSE IF m.pend.op = "append"
       THEN {RefView(AppendSeq(m.ref, SubSeq(m.pend.args.es, 1, j)).st) : j \in 1..Len(m.pend.args.es)}
       ELSE {}

\* the effect of one journal record on a reference-shaped state (recovery replays records, it does not validate history)
ApplyRec(r, rec) ==
  CASE rec.k = "vote"   -> [r EXCEPT !.vote = rec.v]
    [] rec.k = "app"    -> [r EXCEPT !.log = Append(SelectSeq(@, LAMBDA x : x[2] < rec.id[2]), <<rec.id[1], rec.id[2], rec.p[1], rec.p[2]>>),
                                     !.last = rec.id]
    [] rec.k = "commit" -> [r EXCEPT !.committed = rec.id]
    [] rec.k = "trunc"  -> [r EXCEPT !.log = SelectSeq(@, LAMBDA x : x[2] < NextIdx(rec.id)),
                                     !.last = IF Lt(rec.id, @) THEN rec.id ELSE @]
    [] rec.k = "purge"  -> [r EXCEPT !.log = SelectSeq(@, LAMBDA x : x[2] > rec.id[2]),
                                     !.purged = MaxId(@, rec.id), !.last = MaxId(@, rec.id)]
    [] rec.k = "state"  -> [r EXCEPT !.vote = rec.st.v, !.last = rec.st.l, !.committed = rec.st.c,
                                     !.purged = rec.st.p, !.user = rec.st.u]
    [] OTHER            -> r

RECURSIVE FoldRecs(_, _, _)
FoldRecs(r, recs, k) == IF k > Len(recs) THEN r ELSE FoldRecs(ApplyRec(r, recs[k].rec), recs, k + 1)

\* what the records PHYSICALLY PRESENT in the retained files amount to when the journal ends at global offset B:
\* the head snapshot of the oldest retained file, then every record up to B
FoldPresent(m, B) ==
  LET c0 == SetMin(LinkedCks(m))
      h0 == HeadOf(m, c0)
      base == [RefInit EXCEPT !.vote = h0.st.v, !.last = h0.st.l, !.committed = h0.st.c, !.purged = h0.st.p, !.user = h0.st.u]
  IN IF B <= c0 THEN RefInit
     ELSE FoldRecs(base, SelectSeq(m.jr, LAMBDA x : x.off >= c0 /\ x.off + x.sz <= B), 1)

\* C10: the newest chunk of the final, fully flushed image cut at byte e.cut, or zero-filled for e.zero[2]
\* bytes from the record boundary e.zero[1]; both settings of truncate_incomplete_record (e.tr)
TailProbe(m, e) ==
  LET ck == e.ck
      j == FileIdx(m, ck)
      h == HeadOf(m, ck)
  IN
  IF ~m.sizeok \/ j = 0 \/ LinkedCks(m) = {} \/ h.ck = -1 \/ HeadOf(m, SetMin(LinkedCks(m) \cup {ck})).ck = -1
  THEN Note(m, "tail_probe_not_applicable", e)
  ELSE IF ck # SetMax(LinkedCks(m)) \/ m.files[j].w # m.jend - ck \/ m.files[j].w # e.len
       THEN Note(m, "tail_probe_not_applicable", e)
  ELSE
  LET hs == StateSize(h.st, h.ul)
      inck == SelectSeq(m.jr, LAMBDA r : r.off >= ck)
      ends == {ck, ck + hs} \cup {inck[q].off + inck[q].sz : q \in 1..Len(inck)}
      isCut == e.cut >= 0
      x == IF isCut THEN ck + e.cut ELSE ck + e.zero[1]
      B == SetMax({b \in ends : b <= x})
      incomplete == IF isCut THEN B # x ELSE TRUE
      lost == Cardinality({q \in 1..Len(inck) : inck[q].off + inck[q].sz > B})
      k == m.nacc - lost
      after == {q \in 1..Len(e.files_after) : e.files_after[q][1] = ck}
  IN
  IF ~isCut /\ ~(x \in ends) THEN Note(m, "tail_probe_boundary_unknown", e)
  \* (no guard on k: `want` is folded from the journal records physically present, not from the pruned views)
  ELSE IF e.rc = "panic" THEN ViolKeep(m, "C10", "recovery_panicked_on_tail", e, [cut |-> e.cut, zero |-> e.zero, tr |-> e.tr, res |-> e.res])
  ELSE IF ~e.tr /\ incomplete
  THEN \* truncation disabled and the image holds an incomplete or zero tail: open must fail and touch nothing
       IF e.rc = "ok" THEN ViolKeep(m, "C10", "opened_although_truncation_disabled", e, [cut |-> e.cut, zero |-> e.zero])
       ELSE IF ~e.same THEN ViolKeep(m, "C10", "refused_open_modified_files", e, [cut |-> e.cut, zero |-> e.zero])
       ELSE m
  ELSE
  LET \* exactly the records that are completely present (files deleted earlier contribute nothing)
      want == RefView(FoldPresent(m, B)) IN
  IF e.rc # "ok" THEN ViolKeep(m, "C10", "tail_not_recovered", e, [cut |-> e.cut, zero |-> e.zero, tr |-> e.tr, res |-> e.res, boundary |-> B - ck])
  ELSE IF e.obs.esr # "ok" \/ ObsView(e.obs) # want
  THEN ViolKeep(m, "C10", "wrong_prefix_recovered", e,
                [cut |-> e.cut, zero |-> e.zero, tr |-> e.tr, got |-> ObsView(e.obs), want |-> want, boundary |-> B - ck])
  ELSE IF B > ck /\ (after = {} \/ \E q \in after : e.files_after[q][2] # B - ck)
  THEN ViolKeep(m, "C10", "file_length_after_recovery", e, [cut |-> e.cut, zero |-> e.zero, files |-> e.files_after, boundary |-> B - ck])
  ELSE IF "cont" \in DOMAIN e /\ e.cont.res # "skipped"
  THEN IF e.cont.rc # "ok" THEN ViolKeep(m, "C10", "writes_do_not_continue_after_recovery", e, [res |-> e.cont.res, cut |-> e.cut, zero |-> e.zero])
       ELSE LET ent == e.cont.entry
                w2 == [st |-> [e.obs.st EXCEPT !.l = <<ent[1], ent[2]>>], es |-> Append(e.obs.es, ent)]
            IN IF e.cont.obs2.esr # "ok" \/ ObsView(e.cont.obs2) # w2
               THEN ViolKeep(m, "C10", "writes_do_not_continue_after_recovery", e, [got |-> ObsView(e.cont.obs2), want |-> w2, cut |-> e.cut, zero |-> e.zero])
               ELSE m
  ELSE m

\* C09: one byte of a complete record altered (kind damage), or a middle chunk removed (kind missing)
DamageProbe(m, e) ==
  IF e.kind = "missing"
  THEN IF e.rc = "ok" THEN ViolKeep(m, "C09", "missing_chunk_absorbed", e, [ck |-> e.ck])
       ELSE IF e.rc = "panic" THEN ViolKeep(m, "C09", "panic_on_missing_chunk", e, [ck |-> e.ck, res |-> e.res])
       ELSE IF ~e.same_others THEN ViolKeep(m, "C09", "refused_open_modified_other_files", e, [ck |-> e.ck, field |-> "missing", past_eof |-> FALSE, newest |-> FALSE])
       ELSE m
  ELSE
  IF e.rc = "panic" THEN ViolKeep(m, "C09", "panic_on_damaged_image", e, [ck |-> e.ck, at |-> e.at, field |-> e.field, res |-> e.res])
  ELSE IF e.rc = "ok"
  THEN ViolKeep(m, "C09", "corruption_absorbed", e,
                [ck |-> e.ck, at |-> e.at, old |-> e.old, new |-> e.new, field |-> e.field, past_eof |-> e.past_eof,
                 newest |-> e.newest, same_view |-> e.obs.esr = "ok" /\ ObsView(e.obs) = RefView(m.ref)])
  ELSE IF ~e.same_others
  THEN ViolKeep(m, "C09", "refused_open_modified_other_files", e,
                [ck |-> e.ck, at |-> e.at, field |-> e.field, past_eof |-> e.past_eof, newest |-> e.newest])
  ELSE m

\* C11 ("each file's name is the global byte offset of its first record ... all u64 offsets for the file-name
\* encoding"): the final image shifted to base offset x (a decimal string: TLC integers are 32 bit).  The store
\* must open it with the same state and entries, and after a continuation through rotations the directory must
\* hold exactly the names `want` = the harness's own formatting of x + the offsets of the unshifted run;
\* returned segments and on_disk_size must shift by exactly x.
CodecProbe(m, e) ==
  IF e.res # "ok" THEN ViolKeep(m, "C11", "shifted_journal_not_usable", e, [x |-> e.x, res |-> e.res])
  ELSE IF ~e.same_view THEN ViolKeep(m, "C11", "shifted_journal_state_differs", e, [x |-> e.x])
  ELSE IF e.got # e.want THEN ViolKeep(m, "C11", "chunk_name_is_not_its_global_offset", e, [x |-> e.x, got |-> e.got, want |-> e.want])
  ELSE IF ~e.segs_ok THEN ViolKeep(m, "C11", "segment_not_where_record_is", e, [x |-> e.x])
  ELSE IF ~e.ods_ok THEN ViolKeep(m, "C11", "on_disk_size_wrong", e, [x |-> e.x])
  ELSE m

ProbeStep(m0, e) ==
  LET m == Cnt(m0, "probes") IN
  IF e.kind = "tail" THEN TailProbe(m, e)
  ELSE IF e.kind = "codec" THEN CodecProbe(m, e)
  ELSE IF e.kind \in {"damage", "missing"} THEN DamageProbe(m, e)
  ELSE IF e.kind # "crash" THEN m
  ELSE IF "gen2" \notin DOMAIN e /\ ~ImageAllowed(m, e.img) THEN Note(m, "probe_image_outside_crash_model", e)
  \* (gen2: the image is an allowed image after some of the recovery's own file-modifying calls, then power loss)
  ELSE IF e.rc = "panic" THEN ViolKeep(m, "C05", "recovery_panicked", e, [res |-> e.res, img |-> e.img])
  ELSE IF e.rc = "err"
  THEN IF ~e.tr /\ \E k \in 1..Len(e.img) : e.img[k][4] # "none"
       THEN IF e.same THEN m ELSE ViolKeep(m, "C10", "refused_open_modified_files", e, [img |-> e.img])
       ELSE ViolKeep(m, "C05", "open_failed_after_crash", e,
                     [res |-> e.res, cls |-> e.cls, dir |-> e.files_after, img |-> e.img,
                      short_pred |-> ShortPred(m, e.img), hole |-> Hole(m, e.img)])
  ELSE
  LET o == e.obs
      ks == {k \in m.acked..m.nacc : k >= m.vbase /\ RefView(m.views[k - m.vbase + 1]) = ObsView(o)}
      inPend == ObsView(o) \in PendingViews(m)
  IN
  IF o.esr # "ok"
  THEN \* under small cache limits an unreadable live entry is C07's subject, otherwise C03's
       ViolKeep(m, IF m.cfg.ci >= 0 \/ m.cfg.cc >= 0 THEN "C07" ELSE "C03", "read_error_after_recovery", e,
                [esr |-> o.esr, img |-> e.img, f5 |-> F5Class(m, o.cache.sev) \/ F5Pending(m)])
  ELSE IF ks = {} /\ ~inPend
  THEN ViolKeep(m, "C03", "recovered_state_is_no_acked_prefix", e,
                [got |-> ObsView(o), acked |-> m.acked, nacc |-> m.nacc, img |-> e.img,
                 lost_acked |-> \E k \in m.vbase..(m.acked - 1) : RefView(m.views[k - m.vbase + 1]) = ObsView(o)])
  ELSE IF e.cont.res = "skipped" THEN m
  ELSE IF e.cont.rc # "ok"
  THEN ViolKeep(m, "C05", "recovered_store_not_usable", e, [res |-> e.cont.res, img |-> e.img])
  ELSE \* the continuation (append the next entry, flush, reopen) must yield recovered + that entry
       LET ent == e.cont.entry
           want == [st |-> [o.st EXCEPT !.l = <<ent[1], ent[2]>>], es |-> Append(o.es, ent)]
       IN IF e.cont.obs1.esr # "ok" \/ ObsView(e.cont.obs1) # want
          THEN \* C07: every live entry readable right after a write on the recovered store, whatever the cache limits
               ViolKeep(m, IF m.cfg.ci >= 0 \/ m.cfg.cc >= 0 THEN "C07" ELSE "C05", "read_after_recovery_and_write", e,
                        [got |-> ObsView(e.cont.obs1), esr |-> e.cont.obs1.esr, want |-> want, img |-> e.img,
                         \* F5 on the recovered store: the entry just appended (journalled after everything
                         \* else) compares <= the boundary recovery left behind (only after a truncation)
                         f5 |-> F5Class(m, e.cont.obs1.cache.sev) \/ F5Pending(m) \/ Le(<<ent[1], ent[2]>>, e.cont.obs1.cache.sev)])
          ELSE IF e.cont.obs2.esr # "ok" \/ ObsView(e.cont.obs2) # want
          THEN ViolKeep(m, "C05", "recovered_store_inconsistent_after_continuation", e,
                        [got |-> ObsView(e.cont.obs2), want |-> want, img |-> e.img])
          ELSE m

-----------------------------------------------------------------------------

MonStep(m0, e) ==
  LET m == [m0 EXCEPT !.out.cnt.events = @ + 1] IN
  IF e.e = "reset" THEN RunInit(m.out, e)
  ELSE IF m.tainted THEN m
  ELSE
  CASE e.e = "b"  -> IF e.op = "flush" THEN FlushBegin(m, e) ELSE BeginStep(m, e)
    [] e.e = "r"  -> ReturnStep(m, e)
    [] e.e = "fs" -> IF e.call = "funlock" /\ e.t = "c" /\ m.pend.op = "drop"
                     THEN [m EXCEPT !.unlocked = TRUE]
                     ELSE IF FsAfterUnlock(m, e)
                     THEN FsStep(ViolKeep(m, "C14", "fs_change_after_lock_released", e, [call |-> e.call, ck |-> e.ck, t |-> e.t]), e)
                     ELSE IF FsAfterDrop(m, e)
                     THEN FsStep(ViolKeep(m, "C14", "fs_change_after_acknowledged_drop", e, [call |-> e.call, ck |-> e.ck, t |-> e.t]), e)
                     ELSE FsStep(m, e)
    [] e.e = "cb" -> CbStep(m, e)
    [] e.e = "cbdrop" -> IF FlIdx(m, e.fid) = 0 THEN m ELSE [m EXCEPT !.fl[FlIdx(m, e.fid)].st = IF @ = "wait" THEN "dropped" ELSE @]
    [] e.e = "rd" -> ReadStep(m, e)
    [] e.e = "it" -> IterStep(m, e)
    [] e.e = "dump" -> DumpStep(m, e)
    [] e.e = "idle" -> IdleStep(m, e)
    [] e.e = "drain" -> DrainStep(m, e)
    [] e.e = "obs" -> ObsStep(m, e)
    [] e.e = "locktry" -> LockTryStep(m, e)
    [] e.e = "lk" -> LkStep(m, e)
    [] e.e = "lkrace" -> LkRaceStep(m, e)
    [] e.e = "pt" -> PtStep(m, e)
    [] e.e = "crash" -> CrashStep(m, e)
    [] e.e = "probe" -> ProbeStep(m, e)
    [] e.e = "fault" -> [m EXCEPT !.faulted = TRUE]
    [] e.e = "hp" -> \* a panic escaped a public operation the harness does not wrap individually (drain, stat, ...)
                     Viol(m, "C16", "panic", e, [op |-> e.op, args |-> <<>>, res |-> e.res, at_integer_limit |-> m.bigSeen])
    [] OTHER -> m

MonInit == [RunInit(Out0, [run |-> 0, mode |-> "none"]) EXCEPT !.out.cnt.runs = 0]

\* The recorded known findings (kept in step with /verif/known_findings.json): a violation record that
\* satisfies one of these narrow predicates is a defect of the code that is already on file.
KnownFinding(v) ==
  \/ /\ v.p \in {"C07", "C02"} /\ v.k \in {"read_error", "entries_mismatch", "read_mismatch", "iter_error", "iter_mismatch",
               "read_error_after_recovery", "read_after_recovery_and_write"}
     /\ v.d.f5                                                                                   \* F5
  \/ /\ v.p = "C16" /\ v.k = "panic" /\ v.d.at_integer_limit
     /\ v.d.res = "panic:attempt to add with overflow"                                           \* F2c
  \/ /\ v.p = "C05" /\ v.k = "open_failed_after_crash" /\ v.d.cls \in {"gap", "empty_chunk"}
     /\ v.d.short_pred /\ ~v.d.hole                                                              \* F4
  \/ /\ v.p = "C09" /\ v.k \in {"corruption_absorbed", "refused_open_modified_other_files"}
     /\ v.d.past_eof                                                                             \* F6
=============================================================================
