--------------------------- MODULE RaftLogRef ---------------------------
(***************************************************************************)
(* Reference semantics: the "plain in-memory Raft log" the properties       *)
(* compare the store against.  Written from the API documentation and       *)
(* errors.rs, not from the implementation.                                  *)
(*                                                                          *)
(* Values: a log id / vote is a pair <<term, index>>; None is <<0,0>>        *)
(* (real terms are >= 1), so the lexicographic order below is at once Rust's *)
(* tuple order and Option order.  An entry is <<term, index, tok, len>>      *)
(* (payload token and byte length).  User data is a string, "~" is None.     *)
(***************************************************************************)
EXTENDS Integers, Sequences, FiniteSets

None == <<0, 0>>

Lt(a, b) == a[1] < b[1] \/ (a[1] = b[1] /\ a[2] < b[2])
Le(a, b) == a = b \/ Lt(a, b)
MaxId(a, b) == IF Lt(a, b) THEN b ELSE a

\* u64::MAX travels as BIG (see harness util.rs); indexes never exceed it
BIG == 1000000000

NextIdx(id) == IF id = None THEN 0 ELSE id[2] + 1

EId(e) == <<e[1], e[2]>>

RefInit == [vote |-> None, last |-> None, committed |-> None, purged |-> None,
            user |-> "~", log |-> <<>>]

\* the state record as the store reports it
RefSt(r) == [v |-> r.vote, l |-> r.last, c |-> r.committed, p |-> r.purged, u |-> r.user]

\* position (1-based) of index i in the log, 0 if absent; the log holds consecutive indexes
PosOf(r, i) ==
  IF r.log = <<>> THEN 0
  ELSE LET f == r.log[1][2] IN
       IF i >= f /\ i < f + Len(r.log) THEN i - f + 1 ELSE 0

HasIdx(r, i) == PosOf(r, i) # 0

IdAt(r, i) == EId(r.log[PosOf(r, i)])

Read(r, from, to) == SelectSeq(r.log, LAMBDA e : e[2] >= from /\ e[2] < to)

-----------------------------------------------------------------------------
(* Each operation yields [ok, st]: whether the reference accepts it and the  *)
(* state afterwards (unchanged when refused).  `legal` is FALSE for arguments *)
(* outside "Raft-legal histories" on which the properties are silent.        *)

AppendOk(r, e) ==
  /\ Lt(r.last, EId(e))
  /\ (r.last # None => e[2] = r.last[2] + 1)

AppendOne(r, e) == [r EXCEPT !.log = Append(@, e), !.last = EId(e)]

\* batch append: entries before the first invalid one stay; the call reports the error
RECURSIVE AppendSeq(_, _)
AppendSeq(r, es) ==
  IF es = <<>> THEN [ok |-> TRUE, st |-> r, n |-> 0]
  ELSE IF AppendOk(r, es[1])
       THEN LET x == AppendSeq(AppendOne(r, es[1]), Tail(es))
            IN [ok |-> x.ok, st |-> x.st, n |-> x.n + 1]
       ELSE [ok |-> FALSE, st |-> r, n |-> 0]

VoteOk(r, v) == Le(r.vote, v)

CommitOk(r, id) == Le(r.committed, id)

TruncOk(r, i) == i = NextIdx(r.purged) \/ (i >= 1 /\ HasIdx(r, i - 1))

\* the log id that becomes the new upper end
TruncLid(r, i) == IF i = NextIdx(r.purged) THEN r.purged ELSE IdAt(r, i - 1)

Truncate(r, i) ==
  LET lid == TruncLid(r, i) IN
  [r EXCEPT !.log = SelectSeq(@, LAMBDA e : e[2] < i),
            !.last = IF Lt(lid, @) THEN lid ELSE @]

PurgeNoop(r, id) == id[2] < NextIdx(r.purged)

\* legal purge: at or below the purge point (no-op), the id stored at that index, or beyond last
PurgeLegal(r, id) ==
  \/ PurgeNoop(r, id)
  \/ (HasIdx(r, id[2]) /\ IdAt(r, id[2]) = id)
  \/ (Lt(r.last, id) /\ id[2] > (IF r.last = None THEN -1 ELSE r.last[2]) /\ id[2] < BIG)

Purge(r, id) ==
  IF PurgeNoop(r, id) THEN r
  ELSE [r EXCEPT !.log = SelectSeq(@, LAMBDA e : e[2] > id[2]),
                 !.purged = MaxId(@, id),
                 !.last = MaxId(@, id)]

\* op is the harness operation name, a its argument record
RefApply(r, op, a) ==
  CASE op = "vote"     -> IF VoteOk(r, a.v) THEN [ok |-> TRUE, legal |-> TRUE, st |-> [r EXCEPT !.vote = a.v]]
                          ELSE [ok |-> FALSE, legal |-> TRUE, st |-> r]
    [] op = "append"   -> LET x == AppendSeq(r, a.es) IN
                          \* an index at the integer limit has no successor: outside legal use
                          [ok |-> x.ok, legal |-> \A k \in 1..Len(a.es) : a.es[k][2] < BIG - 1000, st |-> x.st]
    [] op = "truncate" -> IF TruncOk(r, a.i) THEN [ok |-> TRUE, legal |-> TRUE, st |-> Truncate(r, a.i)]
                          ELSE [ok |-> FALSE, legal |-> TRUE, st |-> r]
    [] op = "purge"    -> [ok |-> TRUE, legal |-> PurgeLegal(r, a.id), st |-> Purge(r, a.id)]
    [] op = "commit"   -> IF CommitOk(r, a.id) THEN [ok |-> TRUE, legal |-> TRUE, st |-> [r EXCEPT !.committed = a.id]]
                          ELSE [ok |-> FALSE, legal |-> TRUE, st |-> r]
    [] op = "userdata" -> [ok |-> TRUE, legal |-> TRUE, st |-> [r EXCEPT !.user = a.u]]
    [] OTHER           -> [ok |-> TRUE, legal |-> FALSE, st |-> r]

\* Invariants of the reference itself (checked by MC_Ref)
RefTypeOK(r) ==
  /\ Le(r.purged, r.last)
  /\ \A k \in 1..Len(r.log) : r.log[k][2] = r.log[1][2] + k - 1
  /\ (r.log # <<>> => /\ r.log[1][2] = NextIdx(r.purged) \/ r.purged = None
                      /\ EId(r.log[Len(r.log)]) = r.last)
=============================================================================
