---------------------------- MODULE RaftLogStore ----------------------------
(***************************************************************************)
(* Implementation-shaped specification of drmingdrmer/raft-log.             *)
(*                                                                          *)
(* The store is described the way the code is built: the Raft-log state     *)
(* machine (RaftLogState + index map + payload cache), the chunked journal   *)
(* (closed chunks, open chunk, pending buffer), the channel to the flush     *)
(* worker, the worker's loop as one step per stop (hook point / FS call /    *)
(* callback), the file system (records written vs. durable, directory        *)
(* entries), crash with a nondeterministic image, recovery (RaftLog::open),  *)
(* clean drop.  Record sizes are the real encoded sizes, so chunk ids and    *)
(* offsets coincide with the real ones.                                      *)
(*                                                                          *)
(* Every step is a pure function  store -> [s, evs, x]  : the new store, the *)
(* observable events it produces (same vocabulary as the harness trace) and  *)
(* the script step that makes the real code take it.  The actions below only *)
(* choose arguments.  The events are folded through Monitor!MonStep, so the  *)
(* properties are the same formulas as in trace validation.                  *)
(*                                                                          *)
(* Code anchors (pinned commit + fix commits): raft_log.rs (calls, open),    *)
(* state_machine/mod.rs + raft_log_state.rs (apply), payload_cache.rs,       *)
(* wal/mod.rs (flush, rotation), flush_worker.rs (worker), chunk/mod.rs      *)
(* (Chunk::open, tail handling).                                             *)
(***************************************************************************)
EXTENDS Integers, Sequences, FiniteSets, TLC, Monitor

ULen == 2

-----------------------------------------------------------------------------
(* records and sizes *)

RecSize(r) ==
  CASE r.k = "vote"   -> 28
    [] r.k = "app"    -> 32 + r.p[2]
    [] r.k = "commit" -> 28
    [] r.k = "purge"  -> 28
    [] r.k = "trunc"  -> 12 + OptIdSize(r.id)
    [] r.k = "state"  -> StateSize(r.st, ULen)

Sized(r) == [sz |-> RecSize(r), r |-> r]

RECURSIVE SumSz(_)
SumSz(rs) == IF rs = <<>> THEN 0 ELSE rs[1].sz + SumSz(Tail(rs))

St0 == [v |-> None, l |-> None, c |-> None, p |-> None, u |-> "~"]

\* RaftLogState::apply: validation (raft_log_state.rs:151-215) ...
StateOk(st, r) ==
  CASE r.k = "vote"   -> Le(st.v, r.v)
    [] r.k = "app"    -> Lt(st.l, r.id) /\ (st.l # None => r.id[2] = st.l[2] + 1)
    [] r.k = "commit" -> Le(st.c, r.id)
    [] OTHER          -> TRUE
\* ... and effect
ApplyState(st, r) ==
  CASE r.k = "vote"   -> [st EXCEPT !.v = r.v]
    [] r.k = "app"    -> [st EXCEPT !.l = r.id]
    [] r.k = "commit" -> [st EXCEPT !.c = r.id]
    [] r.k = "trunc"  -> IF Lt(r.id, st.l) THEN [st EXCEPT !.l = r.id] ELSE st
    [] r.k = "purge"  -> [st EXCEPT !.p = MaxId(@, r.id), !.l = MaxId(@, r.id)]
    [] r.k = "state"  -> r.st

-----------------------------------------------------------------------------
(* payload cache (payload_cache.rs): entries [id, p] in log-id order,        *)
(* running size counter csz, eviction boundary ev                            *)

CacheOver(cfg, cache, csz) == (cfg.ci >= 0 /\ Len(cache) > cfg.ci) \/ (cfg.cc >= 0 /\ csz > cfg.cc)

RECURSIVE TryEvict(_, _, _, _)
TryEvict(cfg, cache, csz, ev) ==
  IF cache # <<>> /\ CacheOver(cfg, cache, csz) /\ Le(cache[1].id, ev)
  THEN TryEvict(cfg, Tail(cache), csz - cache[1].p[2], ev)
  ELSE [cache |-> cache, csz |-> csz]

\* insert keeps id order; ids are unique because an appended id exceeds every resident id
CacheInsert(cfg, cache, csz, ev, id, p) ==
  LET lo == SelectSeq(cache, LAMBDA c : Lt(c.id, id))
      hi == SelectSeq(cache, LAMBDA c : Lt(id, c.id))
  IN TryEvict(cfg, lo \o <<[id |-> id, p |-> p]>> \o hi, csz + p[2], ev)

CacheTruncAfter(cache, csz, lid) ==
  LET keep == SelectSeq(cache, LAMBDA c : Le(c.id, lid))
      gone == SelectSeq(cache, LAMBDA c : Lt(lid, c.id))
  IN [cache |-> keep, csz |-> csz - SumSeq([k \in 1..Len(gone) |-> gone[k].p[2]])]

RECURSIVE CachePurge(_, _, _, _)
CachePurge(cache, csz, id, ev) ==      \* pops while <= id AND <= boundary: pinned entries stay
  IF cache # <<>> /\ Le(cache[1].id, id) /\ Le(cache[1].id, ev)
  THEN CachePurge(Tail(cache), csz - cache[1].p[2], id, ev)
  ELSE [cache |-> cache, csz |-> csz]

RECURSIVE CacheDrain(_, _, _)
CacheDrain(cache, csz, ev) ==
  IF cache # <<>> /\ Le(cache[1].id, ev)
  THEN CacheDrain(Tail(cache), csz - cache[1].p[2], ev)
  ELSE [cache |-> cache, csz |-> csz]

-----------------------------------------------------------------------------
(* file system: files in chunk-id order                                      *)
(*   recs: records written (page cache), dur: how many of them are durable,  *)
(*   tail: damaged tail after a crash ("none" | "part" | "zero")             *)

FsIdx(fs, ck) == CHOOSE j \in 1..Len(fs) : fs[j].ck = ck
FsHas(fs, ck) == \E j \in 1..Len(fs) : fs[j].ck = ck
Linked(fs) == SelectSeq(fs, LAMBDA f : f.linked)

FsInsert(fs, f) == SelectSeq(fs, LAMBDA g : g.ck < f.ck) \o <<f>> \o SelectSeq(fs, LAMBDA g : g.ck > f.ck)

DirListing(fs) == LET L == Linked(fs) IN [j \in 1..Len(L) |-> <<L[j].ck, SumSz(L[j].recs)>>]

-----------------------------------------------------------------------------
(* the store *)

NoReq == [t |-> "N"]

Worker0(ck, prev) ==
  [pc |-> "recv", files |-> <<[ck |-> ck, prev |-> prev]>>, batch |-> <<>>, nf |-> NoReq,
   bi |-> 0, res |-> "ok", done |-> 0, sf |-> FALSE, defer |-> <<>>]

Down == [up |-> FALSE, fs |-> <<>>, inst |-> 0, cfg |-> [mr |-> -1, ms |-> -1, ci |-> -1, cc |-> -1, rb |-> -1, tr |-> TRUE]]

\* thread label of the worker of instance k
WL(k) == "w" \o ToString(k)

\* index-map entry: [i, id, ck, pos, off, p]  (pos = ordinal of the record inside its chunk file)
\* closed chunk:    [ck, n, end, st]
\* open chunk:      [ck, n, end]

-----------------------------------------------------------------------------
(* reading (raft_log.rs:379, wal/mod.rs:270): cache first; on a miss only     *)
(* closed chunks are consulted and the record must already be in the file     *)

ReadOne(s, x) ==
  IF \E j \in 1..Len(s.cache) : s.cache[j].id = x.id
  THEN [ok |-> TRUE, e |-> <<x.id[1], x.id[2], x.p[1], x.p[2]>>]
  ELSE IF ~\E j \in 1..Len(s.closed) : s.closed[j].ck = x.ck
       THEN [ok |-> FALSE, err |-> "err:NotFound:notfound"]
       ELSE IF Len(s.fs[FsIdx(s.fs, x.ck)].recs) >= x.pos
            THEN [ok |-> TRUE, e |-> <<x.id[1], x.id[2], x.p[1], x.p[2]>>]
            ELSE [ok |-> FALSE, err |-> "err:UnexpectedEof:other"]

RECURSIVE ReadAll(_, _)
ReadAll(s, xs) ==
  IF xs = <<>> THEN [es |-> <<>>, esr |-> "ok"]
  ELSE LET r == ReadOne(s, xs[1]) IN
       IF r.ok THEN LET rest == ReadAll(s, Tail(xs)) IN [es |-> <<r.e>> \o rest.es, esr |-> rest.esr]
       ELSE [es |-> <<>>, esr |-> r.err]

Obs(s) ==
  LET rd == ReadAll(s, s.idx)
      cl == [j \in 1..Len(s.closed) |-> <<s.closed[j].ck, s.closed[j].n, s.closed[j].ck, s.closed[j].end, 0, s.closed[j].st.l>>]
      op == <<s.open.ck, s.open.n, s.open.ck, s.open.end, 1, s.st.l>>
      res == [j \in 1..Len(s.cache) |-> <<s.cache[j].id[1], s.cache[j].id[2], s.cache[j].p[2]>>]
      first == IF s.closed = <<>> THEN s.open.ck ELSE s.closed[1].ck
  IN [st |-> s.st, es |-> IF rd.esr = "ok" THEN rd.es ELSE <<>>, esr |-> rd.esr,
      chunks |-> cl \o <<op>>,
      cache |-> [n |-> Len(s.cache), sz |-> s.csz, ev |-> s.ev, res |-> res, sev |-> s.ev, ssz |-> s.csz, sn |-> Len(s.cache)],
      ods |-> s.open.end - first,
      dir |-> DirListing(s.fs)]

-----------------------------------------------------------------------------
(* events *)

EvB(op, args) == [e |-> "b", op |-> op, args |-> args, seq |-> 0]
EvR(op, res, seg, obs) ==
  [e |-> "r", op |-> op, res |-> res, rc |-> IF res = "ok" THEN "ok" ELSE "err", cls |-> res,
   seg |-> seg, obs |-> obs, seq |-> 0]
EvFs(t, call, ck, off, len, res) ==
  [e |-> "fs", t |-> t, call |-> call, ck |-> ck, off |-> off, len |-> len, res |-> res, seq |-> 0]
EvPt(p, a) == [e |-> "pt", t |-> "w", p |-> p, a |-> a, seq |-> 0]   \* (the monitor does not look at t of pt events)

-----------------------------------------------------------------------------
(* caller: one write record through append_and_apply (raft_log.rs:493)       *)

Full(s) == (s.cfg.mr >= 0 /\ s.open.n >= s.cfg.mr) \/ (s.cfg.ms >= 0 /\ s.open.end - s.open.ck >= s.cfg.ms)

\* rotation (wal/mod.rs:204): create the new chunk, write its head on the caller thread,
\* hand the old tail to the worker, announce the new file
Rotate(s) ==
  LET ck2 == s.open.end
      head == Sized([k |-> "state", st |-> s.st])
      wreq == [t |-> "W", recs |-> s.pend, upto |-> ck2, fid |-> 0, seq |-> s.sent + 1]
      q1 == IF s.pend = <<>> THEN s.q ELSE Append(s.q, wreq)
      n1 == IF s.pend = <<>> THEN s.sent ELSE s.sent + 1
      areq == [t |-> "A", ck |-> ck2, prev |-> s.st.l, seq |-> n1 + 1]
  IN [s |-> [s EXCEPT !.fs = FsInsert(@, [ck |-> ck2, recs |-> <<head>>, dur |-> 0, linked |-> TRUE, tail |-> "none"]),
                      !.q = Append(q1, areq), !.sent = n1 + 1, !.pend = <<>>,
                      !.closed = Append(@, [ck |-> s.open.ck, n |-> s.open.n, end |-> s.open.end, st |-> s.st]),
                      !.open = [ck |-> ck2, n |-> 1, end |-> ck2 + head.sz, ls |-> ck2]],
      evs |-> <<EvFs("c", "creat", ck2, 0, 0, 0), EvFs("c", "write", ck2, 0, head.sz, head.sz)>>]

\* journal + apply one record (the caller has validated it)
Journal(s, r) ==
  LET sr == Sized(r)
      off == s.open.end
      pos == s.open.n + 1
      st1 == ApplyState(s.st, r)
      ix == CASE r.k = "app"   -> SelectSeq(s.idx, LAMBDA x : x.i # r.id[2])
                                   \o <<[i |-> r.id[2], id |-> r.id, ck |-> s.open.ck, pos |-> pos, off |-> off, p |-> r.p]>>
              [] r.k = "trunc" -> SelectSeq(s.idx, LAMBDA x : x.i < NextIdx(r.id))
              [] r.k = "purge" -> SelectSeq(s.idx, LAMBDA x : x.i > r.id[2])
              [] OTHER         -> s.idx
      ca == CASE r.k = "app"   -> CacheInsert(s.cfg, s.cache, s.csz, s.ev, r.id, r.p)
              [] r.k = "trunc" -> IF r.id = None THEN [cache |-> <<>>, csz |-> 0] ELSE CacheTruncAfter(s.cache, s.csz, r.id)
              [] r.k = "purge" -> CachePurge(s.cache, s.csz, r.id, s.ev)
              [] OTHER         -> [cache |-> s.cache, csz |-> s.csz]
      s1 == [s EXCEPT !.st = st1, !.idx = ix, !.cache = ca.cache, !.csz = ca.csz,
                      !.pend = Append(@, sr), !.open.n = pos, !.open.end = off + sr.sz, !.open.ls = off]
      rot == IF Full(s1) THEN Rotate(s1) ELSE [s |-> s1, evs |-> <<>>]
  IN [s |-> rot.s, evs |-> rot.evs, seg |-> <<off, sr.sz>>]

\* purge additionally schedules obsolete closed chunks for removal (raft_log.rs:124)
RECURSIVE PopClosed(_, _, _)
PopClosed(closed, removed, upto) ==
  IF closed # <<>> /\ Le(closed[1].st.l, upto)
  THEN PopClosed(Tail(closed), Append(removed, closed[1].ck), upto)
  ELSE [closed |-> closed, removed |-> removed]

\* the index-map entry preceding `i` (truncate needs its log id)
IdxHas(s, i) == \E j \in 1..Len(s.idx) : s.idx[j].i = i
IdxId(s, i) == s.idx[CHOOSE j \in 1..Len(s.idx) : s.idx[j].i = i].id

\* One public write call.  op/a are the harness operation and arguments.
\* Returns [s, evs, res]; events are b, FS events of a rotation, r (with the observation).
CallWrite(s, op, a) ==
  LET b == EvB(op, a)
      \* the record this call journals, or why it does not
      plan ==
        CASE op = "vote"     -> [r |-> [k |-> "vote", v |-> a.v], go |-> TRUE, noop |-> FALSE]
          [] op = "commit"   -> [r |-> [k |-> "commit", id |-> a.id], go |-> TRUE, noop |-> FALSE]
          [] op = "userdata" -> [r |-> [k |-> "state", st |-> [s.st EXCEPT !.u = a.u]], go |-> TRUE, noop |-> FALSE]
          [] op = "purge"    -> [r |-> [k |-> "purge", id |-> a.id], go |-> TRUE, noop |-> a.id[2] < NextIdx(s.st.p)]
          [] op = "truncate" ->
               IF a.i = NextIdx(s.st.p) THEN [r |-> [k |-> "trunc", id |-> s.st.p], go |-> TRUE, noop |-> FALSE]
               ELSE IF a.i >= 1 /\ IdxHas(s, a.i - 1)
                    THEN [r |-> [k |-> "trunc", id |-> IdxId(s, a.i - 1)], go |-> TRUE, noop |-> FALSE]
                    ELSE [r |-> [k |-> "?"], go |-> FALSE, noop |-> FALSE]
      err(cls) == [s |-> s, evs |-> <<b, EvR(op, cls, <<0, 0>>, Obs(s))>>, res |-> cls]
  IN
  IF ~plan.go THEN err("err:InvalidInput:notfound")
  ELSE IF plan.noop
       THEN \* below the purge point: nothing is journalled; the call returns wal.last_segment()
            [s |-> s, evs |-> <<b, EvR(op, "ok", <<s.open.ls, s.open.end - s.open.ls>>, Obs(s))>>, res |-> "ok"]
  ELSE IF ~StateOk(s.st, plan.r) THEN err("err:InvalidInput:rejected")
  ELSE LET j == Journal(s, plan.r)
           s2 == IF op = "purge"
                 THEN LET pc == PopClosed(j.s.closed, j.s.removed, a.id)
                      IN [j.s EXCEPT !.closed = pc.closed, !.removed = pc.removed]
                 ELSE j.s
       IN [s |-> s2, evs |-> <<b>> \o j.evs \o <<EvR(op, "ok", j.seg, Obs(s2))>>, res |-> "ok"]

\* append of several entries: one record per entry, stops at the first refused one
RECURSIVE AppendEntries(_, _)
AppendEntries(s, es) ==
  IF es = <<>> THEN [s |-> s, evs |-> <<>>, ok |-> TRUE, seg |-> <<0, 0>>]
  ELSE LET r == [k |-> "app", id |-> <<es[1][1], es[1][2]>>, p |-> <<es[1][3], es[1][4]>>] IN
       IF ~StateOk(s.st, r) THEN [s |-> s, evs |-> <<>>, ok |-> FALSE, seg |-> <<0, 0>>]
       ELSE LET j == Journal(s, r)
                rest == AppendEntries(j.s, Tail(es))
            IN [s |-> rest.s, evs |-> j.evs \o rest.evs, ok |-> rest.ok,
                seg |-> IF Len(es) = 1 THEN j.seg ELSE rest.seg]

CallAppend(s, es) ==
  LET x == AppendEntries(s, es)
      a == [es |-> es]
      \* Ok(self.wal.last_segment()): the last record of the open chunk (the head after a rotation)
      seg == IF x.ok THEN x.seg ELSE <<0, 0>>
      res == IF x.ok THEN "ok" ELSE "err:InvalidInput:rejected"
  IN [s |-> x.s, evs |-> <<EvB("append", a)>> \o x.evs \o <<EvR("append", res, seg, Obs(x.s))>>, res |-> res]

\* flush (raft_log.rs:146): hand the pending buffer over; then the removals scheduled by purge
CallFlush(s, fid) ==
  LET wreq == [t |-> "W", recs |-> s.pend, upto |-> s.open.end, fid |-> fid, seq |-> s.sent + 1]
      rreq == [t |-> "R", cks |-> s.removed, seq |-> s.sent + 2]
      q1 == Append(s.q, wreq)
      s1 == IF s.removed = <<>>
            THEN [s EXCEPT !.q = q1, !.sent = @ + 1, !.pend = <<>>]
            ELSE [s EXCEPT !.q = Append(q1, rreq), !.sent = @ + 2, !.pend = <<>>, !.removed = <<>>]
  IN [s |-> s1,
      evs |-> <<EvB("flush", [fid |-> fid, cb |-> TRUE]),
                [e |-> "r", op |-> "flush", res |-> "ok", rc |-> "ok", cls |-> "ok", fid |-> fid, seq |-> 0]>>]

-----------------------------------------------------------------------------
(* the flush worker (flush_worker.rs): one step = from the stop it is parked  *)
(* at to the next stop.  `at` is the label of the next stop as the gate        *)
(* reports it.                                                                 *)

WNext(s, w2, evs, at) == [s |-> [s EXCEPT !.w = w2], evs |-> evs, at |-> at]

\* parking at a hook point is logged as a pt event; FS stops and callbacks are not
At(p, a) == p \o ":" \o ToString(a)
Arrive(s, w2, evs, p, a) == WNext(s, [w2 EXCEPT !.pc = p], evs \o <<EvPt(p, a)>>, At(p, a))

MaxSeq(w) == LET S == {w.batch[j].seq : j \in 1..Len(w.batch)} \cup (IF w.nf.t = "N" THEN {} ELSE {w.nf.seq})
             IN SetMax(S)

GotoDone(s, w, evs) ==
  LET sq == MaxSeq(w) IN
  Arrive(s, [w EXCEPT !.done = sq, !.batch = <<>>, !.nf = NoReq], evs, "done", sq)

GotoNf(s, w, evs) ==
  IF w.nf.t = "N" THEN GotoDone(s, w, evs)
  ELSE Arrive(s, w, evs, "nf", IF w.nf.t = "A" THEN 1 ELSE 2)

GotoCb(s, w, k, evs) ==
  LET S == {j \in k..Len(w.batch) : w.batch[j].fid # 0} IN
  IF S = {} THEN GotoNf(s, w, evs)
  ELSE LET j == SetMin(S) IN WNext(s, [w EXCEPT !.pc = "cb", !.bi = j], evs, At("cb", w.batch[j].fid))

GotoSync(s, w, evs) ==
  IF Len(w.files) > 1 THEN WNext(s, [w EXCEPT !.pc = "sync_old"], evs, At("fdatasync", 0))
  ELSE Arrive(s, w, evs, "set_ev", 0)

GotoWrite(s, w, k, evs) ==
  LET S == {j \in k..Len(w.batch) : w.batch[j].recs # <<>>} IN
  IF S = {} THEN GotoSync(s, w, evs)
  ELSE LET j == SetMin(S) IN WNext(s, [w EXCEPT !.pc = "write", !.bi = j], evs, At("write", SumSz(w.batch[j].recs)))

\* fault = TRUE makes the FS call of this step fail (write / fdatasync / unlink)
WStep(s, fault) ==
  LET w == s.w IN
  CASE w.pc = "recv" ->
         IF s.q = <<>>
         THEN \* only reached when the channel is closed
              WNext(s, [w EXCEPT !.pc = "exit"], <<EvPt("exit", 0)>>, At("exit", 0))
         ELSE LET req == Head(s.q)
                  s1 == [s EXCEPT !.q = Tail(@)]
              IN IF req.t = "W" THEN Arrive(s1, [w EXCEPT !.batch = <<req>>, !.nf = NoReq], <<>>, "batch", 1)
                 ELSE Arrive(s1, [w EXCEPT !.nf = req, !.batch = <<>>], <<>>, "recv_nf", req.seq)
    [] w.pc = "recv_nf" -> Arrive(s, w, <<>>, "nf", IF w.nf.t = "A" THEN 1 ELSE 2)
    [] w.pc = "batch" ->
         IF s.q = <<>> THEN Arrive(s, w, <<>>, "batch_end", 0)
         ELSE LET req == Head(s.q)
                  s1 == [s EXCEPT !.q = Tail(@)]
              IN IF req.t = "W" THEN Arrive(s1, [w EXCEPT !.batch = Append(@, req)], <<>>, "batch", Len(w.batch) + 1)
                 ELSE Arrive(s1, [w EXCEPT !.nf = req], <<>>, "batch_end", 1)
    [] w.pc = "batch_end" -> GotoWrite(s, w, 1, <<>>)
    [] w.pc = "write" ->
         LET ck == w.files[Len(w.files)].ck
             j == FsIdx(s.fs, ck)
             off == SumSz(s.fs[j].recs)
             recs == w.batch[w.bi].recs
             len == SumSz(recs)
         IN IF fault
            THEN WNext(s, [w EXCEPT !.pc = "exit"],
                       <<EvFs(WL(s.inst), "write", ck, off, len, -5), EvPt("exit", 1)>>, At("exit", 1))
            ELSE GotoWrite([s EXCEPT !.fs[j].recs = @ \o recs], w, w.bi + 1,
                           <<EvFs(WL(s.inst), "write", ck, off, len, len)>>)
    [] w.pc = "sync_old" ->
         \* (fix 00be577) sync first, forget the file only when that succeeded
         LET ck == w.files[1].ck
             j == FsIdx(s.fs, ck)
         IN IF fault
            THEN GotoCb(s, [w EXCEPT !.res = "err", !.sf = TRUE], 1, <<EvFs(WL(s.inst), "fdatasync", ck, 0, 0, -5)>>)
            ELSE GotoSync([s EXCEPT !.fs[j].dur = Len(s.fs[j].recs)], [w EXCEPT !.files = Tail(@)],
                          <<EvFs(WL(s.inst), "fdatasync", ck, 0, 0, 0)>>)
    [] w.pc = "set_ev" ->
         WNext([s EXCEPT !.ev = w.files[1].prev], [w EXCEPT !.pc = "sync_new"], <<>>, At("fdatasync", 0))
    [] w.pc = "sync_new" ->
         LET ck == w.files[1].ck
             j == FsIdx(s.fs, ck)
         IN IF fault
            THEN GotoCb(s, [w EXCEPT !.res = "err", !.sf = TRUE], 1, <<EvFs(WL(s.inst), "fdatasync", ck, 0, 0, -5)>>)
            ELSE GotoCb([s EXCEPT !.fs[j].dur = Len(s.fs[j].recs)], [w EXCEPT !.res = "ok", !.sf = FALSE], 1,
                        <<EvFs(WL(s.inst), "fdatasync", ck, 0, 0, 0)>>)
    [] w.pc = "cb" ->
         GotoCb(s, w, w.bi + 1, <<[e |-> "cb", fid |-> w.batch[w.bi].fid, ok |-> w.res = "ok", t |-> WL(s.inst), seq |-> 0]>>)
    [] w.pc = "nf" ->
         IF w.nf.t = "A"
         THEN GotoDone(s, [w EXCEPT !.files = Append(@, [ck |-> w.nf.ck, prev |-> w.nf.prev])], <<>>)
         ELSE \* (fix 6101313) removals requested after a failed sync are deferred until a sync has succeeded
              LET w1 == [w EXCEPT !.defer = @ \o w.nf.cks] IN
              IF w1.defer = <<>> \/ w1.sf THEN GotoDone(s, w1, <<>>)
              ELSE WNext(s, [w1 EXCEPT !.pc = "unlink", !.bi = 1], <<>>, At("unlink", 0))
    [] w.pc = "unlink" ->
         LET ck == w.defer[w.bi]
             j == FsIdx(s.fs, ck)
         IN IF fault
            THEN WNext(s, [w EXCEPT !.pc = "exit"], <<EvFs(WL(s.inst), "unlink", ck, 0, 0, -5), EvPt("exit", 1)>>, At("exit", 1))
            ELSE LET s1 == [s EXCEPT !.fs[j].linked = FALSE]
                     ev1 == <<EvFs(WL(s.inst), "unlink", ck, 0, 0, 0)>>
                 IN IF w.bi < Len(w.defer)
                    THEN WNext(s1, [w EXCEPT !.bi = @ + 1], ev1, At("unlink", 0))
                    ELSE GotoDone(s1, [w EXCEPT !.defer = <<>>], ev1)
    [] w.pc = "done" -> Arrive(s, [w EXCEPT !.res = "ok"], <<>>, "recv", 0)

\* a worker step is possible unless the worker waits on an empty open channel or has quit
WEnabled(s) == s.up /\ s.w.pc # "exit" /\ ~(s.w.pc = "recv" /\ s.q = <<>> /\ ~s.closedch)

\* the FS call a step is about to make (for fault injection)
WFaultable(s) == s.w.pc \in {"write", "sync_old", "sync_new", "unlink"}
FaultCall(s) == CASE s.w.pc = "write" -> "write" [] s.w.pc = "unlink" -> "unlink" [] OTHER -> "fdatasync"

WIdle(s) == s.w.pc = "exit" \/ (s.w.pc = "recv" /\ s.q = <<>>)

RECURSIVE RunIdle(_, _, _)
RunIdle(s, evs, n) ==
  IF WIdle(s) \/ ~WEnabled(s) THEN [s |-> s, evs |-> evs, n |-> n]
  ELSE LET x == WStep(s, FALSE) IN RunIdle(x.s, evs \o x.evs, n + 1)

-----------------------------------------------------------------------------
(* recovery: RaftLog::open (raft_log.rs:211), Chunk::open (chunk/mod.rs:144)  *)

\* replay the records of one chunk through the state machine
RECURSIVE Replay(_, _, _, _)
Replay(a, ck, recs, k) ==
  \* a = [ok, st, idx, cache, csz, ev, cfg, off]
  IF k > Len(recs) \/ ~a.ok THEN a
  ELSE LET r == recs[k].r
           off == a.off
       IN IF ~StateOk(a.st, r) THEN [a EXCEPT !.ok = FALSE]
          ELSE LET ix == CASE r.k = "app"   -> SelectSeq(a.idx, LAMBDA x : x.i # r.id[2])
                                                \o <<[i |-> r.id[2], id |-> r.id, ck |-> ck, pos |-> k, off |-> off, p |-> r.p]>>
                           [] r.k = "trunc" -> SelectSeq(a.idx, LAMBDA x : x.i < NextIdx(r.id))
                           [] r.k = "purge" -> SelectSeq(a.idx, LAMBDA x : x.i > r.id[2])
                           [] OTHER         -> a.idx
                   ca == CASE r.k = "app"   -> CacheInsert(a.cfg, a.cache, a.csz, a.ev, r.id, r.p)
                           [] r.k = "trunc" -> IF r.id = None THEN [cache |-> <<>>, csz |-> 0] ELSE CacheTruncAfter(a.cache, a.csz, r.id)
                           [] r.k = "purge" -> CachePurge(a.cache, a.csz, r.id, a.ev)
                           [] OTHER         -> [cache |-> a.cache, csz |-> a.csz]
               IN Replay([a EXCEPT !.st = ApplyState(a.st, r), !.idx = ix, !.cache = ca.cache, !.csz = ca.csz,
                                   !.off = off + recs[k].sz], ck, recs, k + 1)

\* Recover(fs, cfg): [res, s (the opened store), evs (FS events of the recovery)]
RECURSIVE RecLoop(_, _, _)
RecLoop(files, k, a) ==
  \* a = [res, st, idx, cache, csz, ev, cfg, closed, prevEnd, lastLog, fs, evs, trunc]
  IF k > Len(files) \/ a.res # "ok" THEN a
  ELSE
  LET f == files[k]
      isLast == k = Len(files)
      opened == Append(a.evs, EvFs("c", "open", f.ck, 0, 0, 0))
  IN
  IF a.prevEnd # -1 /\ a.prevEnd # f.ck THEN [a EXCEPT !.res = "gap"]
  ELSE IF f.tail = "bad"
       THEN \* a complete record that no longer decodes (checksum / type / tag): InvalidData, the rest is not zeros
            [a EXCEPT !.res = "corrupt", !.evs = opened]
  ELSE IF f.tail # "none" /\ ~a.cfg.tr THEN [a EXCEPT !.res = "tail", !.evs = opened]
  ELSE
  LET trunc == f.tail # "none"
      len == SumSz(f.recs)
      tev == IF trunc THEN <<EvFs("c", "ftruncate", f.ck, len, 0, 0), EvFs("c", "fsync", f.ck, 0, 0, 0)>> ELSE <<>>
      j == FsIdx(a.fs, f.ck)
      fs1 == IF trunc THEN [a.fs EXCEPT ![j].tail = "none", ![j].dur = Len(f.recs)] ELSE a.fs
  IN
  IF f.recs = <<>>
  THEN \* (fix 6ee05d1) a chunk that holds no complete record
       IF ~isLast THEN [a EXCEPT !.res = "empty_chunk", !.evs = opened \o tev, !.fs = fs1]
       ELSE [a EXCEPT !.fs = [fs1 EXCEPT ![j].linked = FALSE],
                      !.evs = opened \o tev \o <<EvFs("c", "unlink", f.ck, 0, 0, 0)>>]
  ELSE
  LET rp == Replay([ok |-> TRUE, st |-> a.st, idx |-> a.idx, cache |-> a.cache, csz |-> a.csz,
                    ev |-> a.lastLog, cfg |-> a.cfg, off |-> f.ck], f.ck, f.recs, 1)
  IN IF ~rp.ok THEN [a EXCEPT !.res = "bad_record", !.evs = opened \o tev, !.fs = fs1]
     ELSE RecLoop(files, k + 1,
            [a EXCEPT !.st = rp.st, !.idx = rp.idx, !.cache = rp.cache, !.csz = rp.csz, !.ev = a.lastLog,
                      !.closed = Append(@, [ck |-> f.ck, n |-> Len(f.recs), end |-> f.ck + len, st |-> rp.st, trunc |-> trunc]),
                      !.prevEnd = f.ck + len, !.lastLog = rp.st.l, !.fs = fs1, !.evs = opened \o tev])

Recover(fs, cfg, inst) ==
  LET lockev == <<EvFs("c", "opent", -1, 0, 0, 0), EvFs("c", "flock", -1, 0, 0, 0)>>
      a == RecLoop(Linked(fs), 1,
             [res |-> "ok", st |-> St0, idx |-> <<>>, cache |-> <<>>, csz |-> 0, ev |-> None, cfg |-> cfg,
              closed |-> <<>>, prevEnd |-> -1, lastLog |-> None, fs |-> fs, evs |-> lockev])
  IN
  IF a.res # "ok" THEN [res |-> a.res, s |-> [Down EXCEPT !.fs = a.fs, !.inst = inst], evs |-> a.evs]
  ELSE
  LET n == Len(a.closed)
      reuse == n > 0 /\ ~a.closed[n].trunc
      strip(c) == [ck |-> c.ck, n |-> c.n, end |-> c.end, st |-> c.st]
      closed1 == IF reuse THEN [j \in 1..(n - 1) |-> strip(a.closed[j])] ELSE [j \in 1..n |-> strip(a.closed[j])]
      ck2 == IF a.prevEnd = -1 THEN 0 ELSE a.prevEnd
      head == Sized([k |-> "state", st |-> a.st])
      lastf == IF reuse THEN a.fs[FsIdx(a.fs, a.closed[n].ck)].recs ELSE <<>>
      open1 == IF reuse THEN [ck |-> a.closed[n].ck, n |-> a.closed[n].n, end |-> a.closed[n].end,
                              ls |-> a.closed[n].end - lastf[Len(lastf)].sz]
               ELSE [ck |-> ck2, n |-> 1, end |-> ck2 + head.sz, ls |-> ck2]
      fs2 == IF reuse THEN a.fs
             ELSE FsInsert(a.fs, [ck |-> ck2, recs |-> <<head>>, dur |-> 0, linked |-> TRUE, tail |-> "none"])
      cev == IF reuse THEN <<>> ELSE <<EvFs("c", "creat", ck2, 0, 0, 0), EvFs("c", "write", ck2, 0, head.sz, head.sz)>>
      prev == IF closed1 = <<>> THEN None ELSE closed1[Len(closed1)].st.l
  IN [res |-> "ok",
      s |-> [up |-> TRUE, inst |-> inst + 1, cfg |-> cfg, st |-> a.st, idx |-> a.idx, cache |-> a.cache, csz |-> a.csz, ev |-> a.ev,
             closed |-> closed1, open |-> open1, pend |-> <<>>, removed |-> <<>>, sent |-> 0, q |-> <<>>,
             closedch |-> FALSE, w |-> Worker0(open1.ck, prev), fs |-> fs2],
      evs |-> a.evs \o cev \o <<EvPt("recv", 0)>>]

CallOpen(d, cfg) ==
  LET x == Recover(d.fs, cfg, d.inst)
      o == IF x.res = "ok" THEN Obs(x.s) ELSE [none |-> 0]
  IN [s |-> x.s, res |-> x.res,
      evs |-> <<EvB("open", cfg)>> \o x.evs \o
              <<[e |-> "r", op |-> "open", res |-> IF x.res = "ok" THEN "ok" ELSE "err:" \o x.res,
                 rc |-> IF x.res = "ok" THEN "ok" ELSE "err", cls |-> x.res,
                 seg |-> <<0, 0>>, obs |-> o, wl |-> WL(x.s.inst), dir |-> DirListing(x.s.fs), seq |-> 0]>>]

\* clean drop (fix 6b81948): close the channel, the worker drains the queue and quits, then the lock goes
CallDrop(s) ==
  LET x == RunIdle([s EXCEPT !.closedch = TRUE], <<>>, 0)
      y == IF x.s.w.pc = "exit" THEN x ELSE LET z == WStep(x.s, FALSE) IN [s |-> z.s, evs |-> x.evs \o z.evs, n |-> x.n + 1]
  IN [s |-> [Down EXCEPT !.fs = y.s.fs, !.cfg = s.cfg, !.inst = s.inst],
      evs |-> <<EvB("drop", [none |-> 0])>> \o y.evs \o
              <<EvFs("c", "funlock", -1, 0, 0, 0),
                [e |-> "r", op |-> "drop", res |-> "ok", rc |-> "ok", cls |-> "ok", seg |-> <<0, 0>>, seq |-> 0]>>]

-----------------------------------------------------------------------------
(* crash images (power loss): per linked file any number of records >= the    *)
(* durable ones survives, optionally followed by a torn or zero tail.  A       *)
(* process crash is the image that keeps everything.                            *)

ImageChoices(f) ==
  {[n |-> n, tail |-> t] : n \in f.dur..Len(f.recs), t \in {"none", "part", "zero"}}
    \ {[n |-> Len(f.recs), tail |-> t] : t \in {"part", "zero"}}

ApplyImage(fs, img) ==
  \* img: function from the positions of linked files to choices
  LET L == Linked(fs) IN
  [j \in 1..Len(L) |-> [ck |-> L[j].ck, recs |-> SubSeq(L[j].recs, 1, img[j].n), dur |-> img[j].n,
                        linked |-> TRUE, tail |-> img[j].tail]]

ImgDesc(fs, img) ==
  LET L == Linked(fs) IN
  [j \in 1..Len(L) |->
     LET keep == SumSz(SubSeq(L[j].recs, 1, img[j].n))
         nxt == IF img[j].n < Len(L[j].recs) THEN L[j].recs[img[j].n + 1].sz ELSE 0
         extra == IF img[j].tail = "part" THEN nxt \div 2 ELSE 0
         zeros == IF img[j].tail = "zero" THEN nxt ELSE 0
     IN <<L[j].ck, keep + extra, zeros, img[j].tail, SumSz(SubSeq(L[j].recs, 1, L[j].dur)), SumSz(L[j].recs)>>]


-----------------------------------------------------------------------------
(* crash DURING recovery: the file system after the first k file-modifying   *)
(* calls of a recovery (ftruncate / unlink / creat / write of the new head)   *)
(* have taken place.  `st` is the state the recovery had replayed (the head   *)
(* record it writes).                                                         *)

Modifying(e) == e.e = "fs" /\ e.call \in {"ftruncate", "unlink", "creat", "write"} /\ e.ck >= 0

ApplyFsEvent(fs, e, st) ==
  CASE e.call = "ftruncate" ->
         LET j == FsIdx(fs, e.ck) IN [fs EXCEPT ![j].tail = "none", ![j].dur = Len(fs[j].recs)]
    [] e.call = "unlink" -> LET j == FsIdx(fs, e.ck) IN [fs EXCEPT ![j].linked = FALSE]
    [] e.call = "creat" -> FsInsert(fs, [ck |-> e.ck, recs |-> <<>>, dur |-> 0, linked |-> TRUE, tail |-> "none"])
    [] e.call = "write" -> LET j == FsIdx(fs, e.ck) IN [fs EXCEPT ![j].recs = <<Sized([k |-> "state", st |-> st])>>]
    [] OTHER -> fs

RECURSIVE ApplyFsEvents(_, _, _, _)
ApplyFsEvents(fs, evs, k, st) ==
  IF k = 0 \/ evs = <<>> THEN fs ELSE ApplyFsEvents(ApplyFsEvent(fs, evs[1], st), Tail(evs), k - 1, st)

\* all events of a recovery up to and including its k-th modifying call (what was observable before the crash)
RECURSIVE EventsUpTo(_, _)
EventsUpTo(evs, k) ==
  IF k = 0 \/ evs = <<>> THEN <<>>
  ELSE IF Modifying(evs[1]) THEN <<evs[1]>> \o EventsUpTo(Tail(evs), k - 1)
       ELSE <<evs[1]>> \o EventsUpTo(Tail(evs), k)
=============================================================================
