--------------------------- MODULE TraceMonitor ---------------------------
(***************************************************************************)
(* Trace validation: fold MonStep over a trace recorded from the real code. *)
(* The fold is deterministic (one successor per state), so TLC's search is   *)
(* linear in the trace length.  The verdicts accumulated in m.out are        *)
(* written as JSON when the last event has been consumed.                    *)
(*   TRACE=<ndjson> OUT=<json> tlc -workers 1 -config TraceMonitor.cfg ...   *)
(***************************************************************************)
EXTENDS Monitor, Json, IOUtils

Rec == ndJsonDeserialize(IOEnv.TRACE)

VARIABLES i, m

TInit == i = 1 /\ m = MonInit

TNext == /\ i <= Len(Rec)
         /\ i' = i + 1
         /\ m' = MonStep(m, Rec[i])

TSpec == TInit /\ [][TNext]_<<i, m>>

\* evaluated in every state; writes the result once the trace is consumed
Emit == i = Len(Rec) + 1 => JsonSerialize(IOEnv.OUT, <<[consumed |-> i - 1, out |-> m.out]>>)

Consumed == TLCGet("stats").diameter - 1 = Len(Rec)
=============================================================================
