SPECIFICATION TSpec
INVARIANT Emit
POSTCONDITION Consumed
CHECK_DEADLOCK FALSE
