---------------------------- MODULE TraceStore ----------------------------
(***************************************************************************)
(* Conformance of the real code with RaftLogStore: the trace of a replayed  *)
(* behaviour is folded through the specification step by step.  Each `step`  *)
(* marker names the script step the harness is about to execute; the spec    *)
(* takes the corresponding action and the events it emits must be exactly    *)
(* the events the real code produced (projected onto the modelled fields)    *)
(* before the next marker.  A mismatch is DRIFT: the code no longer is the   *)
(* thing TLC explored.  Verdicts on properties come from TraceMonitor.       *)
(***************************************************************************)
EXTENDS RaftLogStore, Json, IOUtils

Rec == ndJsonDeserialize(IOEnv.TRACE)

VARIABLES i, t

\* t = [s, exp, fid, fault, drift, skip, out]
T0 == [s |-> Down, exp |-> <<>>, fid |-> 0, fault |-> FALSE, skip |-> TRUE, run |-> 0,
       out |-> [drift |-> <<>>, steps |-> 0, matched |-> 0, runs |-> 0, conform |-> 0, acts |-> <<>>]]

-----------------------------------------------------------------------------
(* projection of an event (real or expected) onto the modelled fields *)

ObsP(o) == IF "st" \notin DOMAIN o THEN [none |-> 0] ELSE
           [st |-> o.st, es |-> o.es, ok |-> o.esr = "ok", chunks |-> o.chunks,
            n |-> o.cache.n, sz |-> o.cache.sz, ev |-> o.cache.sev, res |-> o.cache.res,
            ods |-> o.ods, dir |-> o.dir]

Modelled(e) ==
  \/ e.e \in {"b", "cb", "ws", "idle", "crash", "pt"}
  \/ e.e = "r"
  \/ e.e = "fs" /\ e.call \in {"creat", "write", "fdatasync", "fsync", "ftruncate", "unlink"} /\ e.ck >= 0

WLabel(tl) == IF tl = "c" THEN "c" ELSE "w"

Proj(e) ==
  CASE e.e = "b"  -> [e |-> "b", op |-> e.op,
                      a |-> CASE e.op = "vote" -> <<e.args.v>>
                              [] e.op = "append" -> <<e.args.es>>
                              [] e.op = "truncate" -> <<e.args.i>>
                              [] e.op \in {"purge", "commit"} -> <<e.args.id>>
                              [] e.op = "userdata" -> <<e.args.u>>
                              [] e.op = "flush" -> <<e.args.fid>>
                              [] e.op = "open" -> <<e.args.mr, e.args.ms, e.args.ci, e.args.cc, e.args.tr>>
                              [] OTHER -> <<>>]
    [] e.e = "r"  -> IF e.op \in {"flush", "drop"} \/ e.rc # "ok" \/ (e.op = "open" /\ e.rc # "ok")
                     THEN [e |-> "r", op |-> e.op, rc |-> e.rc]
                     ELSE [e |-> "r", op |-> e.op, rc |-> e.rc,
                           seg |-> IF e.op \in {"open"} THEN <<0, 0>> ELSE e.seg, obs |-> ObsP(e.obs)]
    [] e.e = "fs" -> [e |-> "fs", t |-> WLabel(e.t), call |-> e.call, ck |-> e.ck, off |-> e.off, len |-> e.len, res |-> e.res]
    [] e.e = "cb" -> [e |-> "cb", fid |-> e.fid, ok |-> e.ok]
    [] e.e = "pt" -> [e |-> "pt", p |-> e.p, a |-> e.a]
    [] e.e = "ws" -> [e |-> "ws", at |-> e.at]
    [] e.e = "idle" -> [e |-> "idle", res |-> e.res, obs |-> ObsP(e.obs)]
    [] e.e = "crash" -> [e |-> "crash", img |-> e.img]
    [] OTHER -> [e |-> e.e]

\* a refused write: the spec's r event carries the unchanged observation; compare it too
ProjR(e) == IF e.e = "r" /\ e.rc = "err" /\ e.op \notin {"flush", "drop", "open"}
            THEN [e |-> "r", op |-> e.op, rc |-> e.rc, obs |-> ObsP(e.obs)] ELSE Proj(e)

-----------------------------------------------------------------------------
(* the specification step that corresponds to a script step *)

IdleEv(s) == [e |-> "idle", res |-> "ok", obs |-> Obs(s), seq |-> 0]

Cfg5(c) == [mr |-> c.mr, ms |-> c.ms, ci |-> c.ci, cc |-> c.cc, rb |-> -1, tr |-> c.tr]

\* script cfg objects carry only the keys that are set; absent = default (-1 / TRUE)
CfgOf(c) ==
  LET d == DOMAIN c IN
  [mr |-> IF "mr" \in d THEN c.mr ELSE -1, ms |-> IF "ms" \in d THEN c.ms ELSE -1,
   ci |-> IF "ci" \in d THEN c.ci ELSE -1, cc |-> IF "cc" \in d THEN c.cc ELSE -1,
   rb |-> -1, tr |-> IF "tr" \in d THEN c.tr ELSE TRUE]

SpecStep(tt, st) ==
  LET s == tt.s
      a == st.a
  IN
  CASE a = "open" ->
         LET x == CallOpen(s, CfgOf(st.cfg)) IN [s |-> x.s, evs |-> x.evs, fid |-> tt.fid, fault |-> FALSE]
    [] a = "vote" -> LET x == CallWrite(s, "vote", [v |-> st.v]) IN [s |-> x.s, evs |-> x.evs, fid |-> tt.fid, fault |-> tt.fault]
    [] a = "commit" -> LET x == CallWrite(s, "commit", [id |-> st.id]) IN [s |-> x.s, evs |-> x.evs, fid |-> tt.fid, fault |-> tt.fault]
    [] a = "purge" -> LET x == CallWrite(s, "purge", [id |-> st.id]) IN [s |-> x.s, evs |-> x.evs, fid |-> tt.fid, fault |-> tt.fault]
    [] a = "truncate" -> LET x == CallWrite(s, "truncate", [i |-> st.i]) IN [s |-> x.s, evs |-> x.evs, fid |-> tt.fid, fault |-> tt.fault]
    [] a = "userdata" -> LET x == CallWrite(s, "userdata", [u |-> st.u]) IN [s |-> x.s, evs |-> x.evs, fid |-> tt.fid, fault |-> tt.fault]
    [] a = "append" -> LET x == CallAppend(s, st.es) IN [s |-> x.s, evs |-> x.evs, fid |-> tt.fid, fault |-> tt.fault]
    [] a = "flush" -> LET x == CallFlush(s, tt.fid + 1) IN [s |-> x.s, evs |-> x.evs, fid |-> tt.fid + 1, fault |-> tt.fault]
    [] a = "wait_idle" -> LET x == RunIdle(s, <<>>, 0) IN [s |-> x.s, evs |-> x.evs \o <<IdleEv(x.s)>>, fid |-> tt.fid, fault |-> tt.fault]
    [] a = "w" -> LET x == WStep(s, tt.fault) IN
                  [s |-> x.s, evs |-> x.evs \o <<[e |-> "ws", at |-> x.at, seq |-> 0]>>, fid |-> tt.fid, fault |-> FALSE]
    [] a = "fault" -> [s |-> s, evs |-> <<>>, fid |-> tt.fid, fault |-> TRUE]
    [] a = "drain" -> LET d == CacheDrain(s.cache, s.csz, s.ev) IN
                      [s |-> [s EXCEPT !.cache = d.cache, !.csz = d.csz], evs |-> <<>>, fid |-> tt.fid, fault |-> tt.fault]
    [] a = "reopen" ->
         LET d == CallDrop(s)
             o == CallOpen(d.s, CfgOf(st.cfg))
         IN [s |-> o.s, evs |-> d.evs \o o.evs, fid |-> tt.fid, fault |-> FALSE]
    [] a = "drop" -> LET d == CallDrop(s) IN [s |-> d.s, evs |-> d.evs, fid |-> tt.fid, fault |-> FALSE]
    [] a = "crash" ->
         LET L == Linked(s.fs)
             img == [j \in 1..Len(L) |->
                       LET c == SelectSeq(st.img, LAMBDA x : x[1] = L[j].ck) IN
                       IF c = <<>> THEN [n |-> Len(L[j].recs), tail |-> "none"]
                       ELSE [n |-> c[1][2], tail |-> IF c[1][2] >= Len(L[j].recs) THEN "none" ELSE c[1][3]]]
         IN [s |-> [Down EXCEPT !.fs = ApplyImage(s.fs, img), !.cfg = s.cfg, !.inst = s.inst],
             evs |-> <<[e |-> "crash", kind |-> "power", img |-> ImgDesc(s.fs, img), seq |-> 0]>>,
             fid |-> tt.fid, fault |-> FALSE]
    [] a = "crash_in_open" ->
         \* the directory is a post-crash image; recovery performs its first k modifying calls, then power is lost again
         LET cfg == CfgOf(st.cfg)
             o1 == Recover(s.fs, cfg, s.inst)
             mods == SelectSeq(o1.evs, Modifying)
             fsk == ApplyFsEvents(s.fs, mods, st.k, o1.s.st)
             L2 == Linked(fsk)
             img2 == [j \in 1..Len(L2) |-> [n |-> IF st.keep THEN Len(L2[j].recs) ELSE L2[j].dur, tail |-> "none"]]
         IN [s |-> [Down EXCEPT !.fs = ApplyImage(fsk, img2), !.cfg = s.cfg, !.inst = s.inst],
             evs |-> <<EvB("open", cfg)>> \o EventsUpTo(o1.evs, st.k)
                     \o <<[e |-> "crash", kind |-> "power", img |-> ImgDesc(fsk, img2), seq |-> 0]>>,
             fid |-> tt.fid, fault |-> FALSE]
    [] OTHER -> \* observation-only steps (read, iter, dump, obs, drain, lock_try ...): no effect on the store
                [s |-> s, evs |-> <<>>, fid |-> tt.fid, fault |-> tt.fault]

Known(a) == a \in {"open", "vote", "commit", "purge", "truncate", "userdata", "append", "flush", "wait_idle",
                   "w", "fault", "reopen", "drop", "crash", "crash_in_open", "drain", "read", "iter", "dump", "obs", "wait_cb"}

\* can the spec take this step in its current state?
Applicable(tt, st) ==
  /\ Known(st.a)
  /\ (st.a \in {"open", "crash_in_open"} => ~tt.s.up)
  /\ (st.a \notin {"open", "crash_in_open", "fault", "read", "iter", "dump", "obs", "wait_cb"} => tt.s.up)
  /\ (st.a = "w" => WEnabled(tt.s))

Drift(tt, why, e, want) ==
  [tt EXCEPT !.skip = TRUE,
             !.out.drift = IF Len(@) < 20 THEN Append(@, [run |-> tt.run, seq |-> e.seq, why |-> why, got |-> e, want |-> want]) ELSE @]

TStep(tt, e) ==
  IF e.e = "reset"
  THEN [tt EXCEPT !.s = Down, !.exp = <<>>, !.fid = 0, !.fault = FALSE, !.skip = (e.mode # "gated"), !.run = e.run,
                  !.out.runs = @ + 1,
                  !.out.conform = @ + (IF ~tt.skip /\ tt.exp = <<>> /\ tt.run # 0 THEN 1 ELSE 0)]
  ELSE IF tt.skip THEN tt
  ELSE IF e.e = "step"
  THEN IF tt.exp # <<>> THEN Drift(tt, "expected events missing", e, ProjR(tt.exp[1]))
       ELSE IF ~Applicable(tt, e.step) THEN Drift(tt, "step not applicable in the specification state", e, [none |-> 0])
       ELSE LET x == SpecStep(tt, e.step) IN
            [tt EXCEPT !.s = x.s, !.exp = SelectSeq(x.evs, Modelled), !.fid = x.fid, !.fault = x.fault,
                       !.out.steps = @ + 1,
                       !.out.acts = IF \E k \in 1..Len(@) : @[k] = e.step.a THEN @ ELSE Append(@, e.step.a)]
  ELSE IF ~Modelled(e) THEN tt
  ELSE IF tt.exp = <<>> THEN Drift(tt, "event not produced by the specification", e, [none |-> 0])
  ELSE IF ProjR(e) # ProjR(tt.exp[1]) THEN Drift(tt, "event differs", e, ProjR(tt.exp[1]))
  ELSE [tt EXCEPT !.exp = Tail(@), !.out.matched = @ + 1]

TInit == i = 1 /\ t = T0
TNext == /\ i <= Len(Rec)
         /\ i' = i + 1
         /\ t' = TStep(t, Rec[i])
TSpec == TInit /\ [][TNext]_<<i, t>>

Final(tt) == [tt.out EXCEPT !.conform = @ + (IF ~tt.skip /\ tt.exp = <<>> /\ tt.run # 0 THEN 1 ELSE 0)]

Emit == i = Len(Rec) + 1 => JsonSerialize(IOEnv.OUT, <<[consumed |-> i - 1, out |-> Final(t)]>>)
Consumed == TLCGet("stats").diameter - 1 = Len(Rec)
=============================================================================
