#!/usr/bin/env python3
"""Writes the MC_*.cfg files (kept under version control; regenerate after editing the table)."""
import os
HERE = os.path.dirname(os.path.abspath(__file__))
BASE = """SPECIFICATION Spec
CONSTANTS
  Votes <- {votes}
  AppIds <- {appids}
  Payloads <- {payloads}
  TruncIdx <- {trunc}
  PurgeIds <- {purge}
  CommitIds <- {commit}
  Users <- {users}
  Cfgs <- {cfgs}
  MaxCalls = {calls}
  MaxFlush = {flush}
  MaxReopen = {reopen}
  MaxCrash = {crash}
  MaxFaults = {faults}
  Concurrent = {conc}
  WithRejects = {rej}
  ExportOneIn = {one_in}
  RecoveryCrashes = {rcrash}
  Batch = {batch}
INVARIANTS NoViolation CacheCounterExact ChunksAbut DurableIsPrefix Export {extra_inv}
VIEW View
ALIAS Alias
CHECK_DEADLOCK FALSE
"""
D = dict(votes="C_Votes", appids="C_AppIds", payloads="C_Payloads", trunc="C_TruncIdx", purge="C_PurgeIds",
         commit="C_CommitIds", users="C_Users", cfgs="C_Cfgs", calls=3, flush=1, reopen=0, crash=0, faults=0,
         conc="FALSE", rej="FALSE", one_in=1, extra_inv="", rcrash="FALSE", batch="FALSE")
T = {
    # sequential instances (module MC_Seq)
    "MC_C01_q": dict(calls=3, flush=1, batch="TRUE"),
    "MC_C01_t": dict(calls=4, flush=1, cfgs="C_CfgsWide", batch="TRUE", one_in=50),
    "MC_C02_q": dict(calls=2, flush=2, reopen=2, cfgs="C_CfgsReopen"),
    "MC_C02_t": dict(calls=3, flush=1, reopen=2, cfgs="C_CfgsReopen", one_in=100),
    "MC_C06_q": dict(calls=2, flush=1, reopen=1, rej="TRUE", batch="TRUE"),
    "MC_C06_t": dict(calls=3, flush=1, reopen=1, rej="TRUE", one_in=20),
    "MC_C10_q": dict(calls=3, flush=1, one_in=10, extra_inv="TailExact"),
    "MC_C10_t": dict(calls=4, flush=1, one_in=100, cfgs="C_CfgsWide", extra_inv="TailExact"),
    "MC_C09_q": dict(calls=3, flush=1, one_in=10, extra_inv="CorruptionReported MissingChunkReported"),
    "MC_C09_t": dict(calls=4, flush=1, one_in=100, cfgs="C_CfgsWide", extra_inv="CorruptionReported MissingChunkReported"),
    "MC_C11_q": dict(calls=3, flush=1, cfgs="C_CfgsWide", batch="TRUE", one_in=4),
    # zero-length payloads (a blank / no-op entry): they take an item slot of the cache but no bytes
    "MC_C01z_q": dict(calls=3, flush=1, payloads="C_PayloadsZ", batch="TRUE"),
    "MC_C11_t": dict(calls=4, flush=1, cfgs="C_Cfgs", batch="TRUE", one_in=100),
}
T.update({
    # concurrent instances (module MC_Conc)
    "MC_C07_q": dict(calls=3, flush=1, conc="TRUE", cfgs="C_CfgsCache"),
    "MC_C07_t": dict(calls=3, flush=2, conc="TRUE", cfgs="C_CfgsCache"),
    "MC_C07z_q": dict(calls=3, flush=1, conc="TRUE", cfgs="C_CfgsCacheZ", payloads="C_PayloadsZ", one_in=4),
    "MC_C04_q": dict(calls=2, flush=2, faults=1, conc="TRUE", cfgs="C_CfgsRot"),
    "MC_C04_t": dict(calls=3, flush=2, faults=2, conc="TRUE", cfgs="C_CfgsRot", one_in=20),
    "MC_Crash_q": dict(calls=2, flush=1, crash=1, conc="TRUE", cfgs="C_CfgsCrash", one_in=20),
    "MC_RCrash_q": dict(calls=1, flush=1, crash=1, conc="TRUE", cfgs="C_CfgsCrash", one_in=4, rcrash="TRUE"),
    "MC_RCrash_t": dict(calls=1, flush=2, crash=1, conc="TRUE", cfgs="C_CfgsCrash", one_in=10, rcrash="TRUE"),
    "MC_Crash_t": dict(calls=2, flush=2, crash=1, conc="TRUE", cfgs="C_CfgsCrash", one_in=200),
    "MC_C07crash_q": dict(calls=2, flush=1, crash=1, conc="TRUE", cfgs="C_CfgsCrashCache", one_in=4),
    "MC_C07crash_t": dict(calls=2, flush=2, crash=1, conc="TRUE", cfgs="C_CfgsCrashCache", one_in=40),
    "MC_C14_q": dict(calls=3, flush=1, reopen=1, conc="TRUE", cfgs="C_CfgsRot"),
    "MC_C14_t": dict(calls=3, flush=2, reopen=2, conc="TRUE", cfgs="C_CfgsRot", one_in=10),
    "MC_C08_q": dict(calls=3, flush=1, faults=0, conc="TRUE", cfgs="C_CfgsRot"),
    "MC_C08_f": dict(calls=3, flush=1, faults=1, conc="TRUE", cfgs="C_CfgsRot3"),
    "MC_C08_t": dict(calls=3, flush=2, faults=1, conc="TRUE", cfgs="C_CfgsRot", one_in=10),
})
for name, over in T.items():
    d = dict(D)
    d.update(over)
    open(os.path.join(HERE, name + ".cfg"), "w").write(BASE.format(**d))
print("wrote", len(T), "cfgs")
